package vsym

import (
	"crypto"
	"crypto/ecdh"
	"crypto/ecdsa"
	"crypto/ed25519"
	"crypto/elliptic"
	"crypto/rand"
	"crypto/rsa"
	"crypto/x509"
	"crypto/x509/pkix"
	"encoding/asn1"
	"encoding/hex"
	"encoding/pem"
	"errors"
	"io"
	"math/big"
	"sync"
	"time"
)

// SymSigner is the harness signer.  Under the executor Sign is a model: the signature is an
// uninterpreted function of (key, digest) and only signatures produced by Sign verify (DESIGN.md
// 1.6).  Natively it is a real RSA key.
type SymSigner struct {
	Name string
	key  *rsa.PrivateKey
}

var (
	keyMu sync.Mutex
	keys  = map[string]*rsa.PrivateKey{}
)

func keyFor(name string) *rsa.PrivateKey {
	keyMu.Lock()
	defer keyMu.Unlock()
	if k, ok := keys[name]; ok {
		return k
	}
	k, err := rsa.GenerateKey(rand.Reader, 2048)
	if err != nil {
		panic(err)
	}
	keys[name] = k
	return k
}

// Signer returns the signer with the given key name (same name, same key).
func Signer(name string) crypto.Signer { return &SymSigner{Name: name, key: keyFor(name)} }

func (s *SymSigner) Public() crypto.PublicKey { return &s.key.PublicKey }

// Sign fails when the fault "sign.<name>" is injected.
func (s *SymSigner) Sign(r io.Reader, digest []byte, opts crypto.SignerOpts) ([]byte, error) {
	if Bool("fault.sign." + s.Name) {
		return nil, errors.New("injected signer fault")
	}
	sig, err := rsa.SignPKCS1v15(r, s.key, opts.HashFunc(), digest)
	if Bool("sign.slow") {
		// a slow signer: the wall clock crosses a second boundary while signing
		time.Sleep(time.Until(time.Now().Truncate(time.Second).Add(1050 * time.Millisecond)))
	}
	return sig, err
}

// Cert returns a certificate for the key of signer with the given serial magnitude (big-endian,
// no leading zero).  Natively it is a real self-signed certificate (so it parses); under the
// executor Raw is an opaque symbolic byte string of CertRawLen bytes and RawIssuer a 3-byte DER
// SEQUENCE with one symbolic byte.  Harnesses read cert.Raw / cert.RawIssuer / cert.SerialNumber.
func Cert(signer crypto.Signer, serial []byte) *x509.Certificate {
	s := signer.(*SymSigner)
	return issue(s, new(big.Int).SetBytes(serial), pkix.Name{CommonName: "vsym " + s.Name})
}

var (
	caOnce sync.Once
	caKey  *rsa.PrivateKey
	caCert *x509.Certificate
)

// issue creates a certificate for s's key issued by a fixed test CA (issuer and subject differ,
// as for real signing certificates).
func issue(s *SymSigner, serial *big.Int, subject pkix.Name) *x509.Certificate {
	caOnce.Do(func() {
		caKey = keyFor("vsym-ca")
		// the CA's common name comes from the model (input "ca.cn": 7 letters) so that issuer bytes
		// are the same under the executor and natively
		load()
		cn := "vsymACA"
		if b, err := hex.DecodeString(m.Bytes["ca.cn"]); err == nil && len(b) == 7 {
			cn = string(b)
		}
		// the name is stored as UTF8String, which is valid DER but not the string type Go's encoder
		// would choose: code that re-encodes a parsed name instead of copying its bytes shows
		rawName := append([]byte{0x30, 0x12, 0x31, 0x10, 0x30, 0x0e, 0x06, 0x03, 0x55, 0x04, 0x03, 0x0c, 0x07}, cn...)
		tmpl := &x509.Certificate{SerialNumber: big.NewInt(1), Subject: pkix.Name{CommonName: cn}, RawSubject: rawName,
			NotBefore: time.Unix(1600000000, 0), NotAfter: time.Unix(2500000000, 0), IsCA: true, BasicConstraintsValid: true, KeyUsage: x509.KeyUsageCertSign}
		der, err := x509.CreateCertificate(rand.Reader, tmpl, tmpl, &caKey.PublicKey, caKey)
		if err != nil {
			panic(err)
		}
		caCert, _ = x509.ParseCertificate(der)
	})
	tmpl := &x509.Certificate{SerialNumber: serial, Subject: subject, NotBefore: time.Unix(1600000000, 0), NotAfter: time.Unix(2500000000, 0)}
	if certExtra > 1000 {
		tmpl.ExtraExtensions = []pkix.Extension{{Id: asn1.ObjectIdentifier{1, 3, 6, 1, 4, 1, 99999, 1}, Value: make([]byte, certExtra)}}
	}
	der, err := x509.CreateCertificate(rand.Reader, tmpl, caCert, &s.key.PublicKey, caKey)
	if err != nil {
		panic(err)
	}
	c, err := x509.ParseCertificate(der)
	if err != nil {
		panic(err)
	}
	return c
}

// CertRawLen sets the length of the opaque certificate bytes under the executor (default 5).
// Natively, a length above 1000 makes later certificates carry an opaque extension of that many
// bytes, so that the real certificate is at least as long as the model's.
func CertRawLen(n int) { certExtra = n }

var certExtra int

// CertSameID returns a certificate with the same issuer name and serial number as like, but for
// the key of signer ("another key under the same issuer and serial").
func CertSameID(signer crypto.Signer, like *x509.Certificate) *x509.Certificate {
	return issue(signer.(*SymSigner), like.SerialNumber, pkix.Name{CommonName: "vsym other holder"})
}

// KeyPEM returns the PEM text ("PRIVATE KEY") of a freshly made PKCS#8 private key: kind 0 RSA,
// 1 ECDSA P-256, 2 Ed25519, 3 X25519; 4: a PEM block whose bytes are not PKCS#8.  Under the executor
// the text is opaque and x509.ParsePKCS8PrivateKey on its bytes is a stub returning a key of the
// documented type for the kind.
func KeyPEM(kind int) []byte {
	var key interface{}
	var err error
	switch kind {
	case 0:
		key = keyFor("keypem-rsa")
	case 1:
		key, err = ecdsa.GenerateKey(elliptic.P256(), rand.Reader)
	case 2:
		_, key, err = ed25519.GenerateKey(rand.Reader)
	case 3:
		key, err = ecdh.X25519().GenerateKey(rand.Reader)
	default:
		return pem.EncodeToMemory(&pem.Block{Type: "PRIVATE KEY", Bytes: []byte{1, 2, 3}})
	}
	if err != nil {
		panic(err)
	}
	der, err := x509.MarshalPKCS8PrivateKey(key)
	if err != nil {
		panic(err)
	}
	return pem.EncodeToMemory(&pem.Block{Type: "PRIVATE KEY", Bytes: der})
}
