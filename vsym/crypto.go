package vsym

import (
	"crypto"
	"crypto/rand"
	"crypto/rsa"
	"crypto/x509"
	"errors"
	"io"
	"math/big"
	"sync"
)

// SymSigner is the harness signer.  Under the executor Sign is a model: the signature is an
// uninterpreted function of (key, digest) and only signatures produced by Sign verify (DESIGN.md
// 1.6).  Natively it is a real RSA key.
type SymSigner struct {
	Name string
	key  *rsa.PrivateKey
}

var (
	keyMu sync.Mutex
	keys  = map[string]*rsa.PrivateKey{}
)

func keyFor(name string) *rsa.PrivateKey {
	keyMu.Lock()
	defer keyMu.Unlock()
	if k, ok := keys[name]; ok {
		return k
	}
	k, err := rsa.GenerateKey(rand.Reader, 2048)
	if err != nil {
		panic(err)
	}
	keys[name] = k
	return k
}

// Signer returns the signer with the given key name (same name, same key).
func Signer(name string) crypto.Signer { return &SymSigner{Name: name, key: keyFor(name)} }

func (s *SymSigner) Public() crypto.PublicKey { return &s.key.PublicKey }

// Sign fails when the fault "sign.<name>" is injected.
func (s *SymSigner) Sign(r io.Reader, digest []byte, opts crypto.SignerOpts) ([]byte, error) {
	if Bool("fault.sign." + s.Name) {
		return nil, errors.New("injected signer fault")
	}
	return rsa.SignPKCS1v15(r, s.key, opts.HashFunc(), digest)
}

// Cert returns a certificate record for the key of signer with the given raw bytes, issuer and
// serial magnitude (big-endian, no leading zero).  Only the fields the library uses are set.
func Cert(signer crypto.Signer, raw, rawIssuer, serial []byte) *x509.Certificate {
	s := signer.(*SymSigner)
	return &x509.Certificate{
		Raw:                append([]byte{}, raw...),
		RawIssuer:          append([]byte{}, rawIssuer...),
		SerialNumber:       new(big.Int).SetBytes(serial),
		PublicKey:          &s.key.PublicKey,
		PublicKeyAlgorithm: x509.RSA,
		SignatureAlgorithm: x509.SHA256WithRSA,
	}
}
