// Package vsym is the harness API of the symbolic executor under /verif/engine.
//
// The engine intercepts every call into this package; the bodies below are the
// native runtime used when a harness is replayed with "go test -overlay": free
// variables take the values of the solver's assignment (model.json), everything
// else is computed by the real code.
package vsym

import (
	"encoding/hex"
	"encoding/json"
	"encoding/pem"
	"fmt"
	"os"
	"path/filepath"
	"runtime"
	"strings"
	"sync"
)

type model struct {
	Scalars map[string]uint64 `json:"scalars"`
	Bytes   map[string]string `json:"bytes"`
}

var (
	m      *model
	names  = map[string]int{}
	Failed []string
)

func load() {
	if m != nil {
		return
	}
	m = &model{Scalars: map[string]uint64{}, Bytes: map[string]string{}}
	p := os.Getenv("VSYM_MODEL")
	if p == "" {
		return
	}
	b, err := os.ReadFile(p)
	if err != nil {
		fmt.Println("VSYM-ERROR cannot read model:", err)
		os.Exit(97)
	}
	if err := json.Unmarshal(b, m); err != nil {
		fmt.Println("VSYM-ERROR bad model:", err)
		os.Exit(97)
	}
}

// Reset forgets name counters (one harness per process is the normal use).
func Reset() { names = map[string]int{} }

func uniq(name string) string {
	n := names[name]
	names[name] = n + 1
	if n == 0 {
		return name
	}
	return fmt.Sprintf("%s#%d", name, n)
}

func scalar(name string) uint64 {
	load()
	return m.Scalars[uniq(name)]
}

func U8(name string) uint8   { return uint8(scalar(name)) }
func U16(name string) uint16 { return uint16(scalar(name)) }
func U32(name string) uint32 { return uint32(scalar(name)) }
func U64(name string) uint64 { return scalar(name) }
func Int(name string) int    { return int(int64(scalar(name))) }
func Bool(name string) bool  { return scalar(name) == 1 }

func bytesOf(name string) []byte {
	load()
	b, err := hex.DecodeString(m.Bytes[uniq(name)])
	if err != nil {
		fmt.Println("VSYM-ERROR bad hex for", name)
		os.Exit(97)
	}
	return b
}

// BytesN returns n symbolic bytes.
func BytesN(name string, n int) []byte {
	b := bytesOf(name)
	out := make([]byte, n)
	copy(out, b)
	return out
}

// Bytes returns a symbolic byte string of symbolic length 0..max.
func Bytes(name string, max int) []byte {
	b := bytesOf(name)
	if len(b) > max {
		fmt.Println("VSYM-ASSUME-FAIL length of", name)
		os.Exit(96)
	}
	return append([]byte{}, b...)
}

// Assume restricts the inputs considered.
func Assume(c bool) {
	if !c {
		fmt.Println("VSYM-ASSUME-FAIL")
		os.Exit(96)
	}
}

// Assert states the property.
func Assert(c bool, label string) {
	if !c {
		fmt.Println("VSYM-ASSERT-FAIL " + label)
		Failed = append(Failed, label)
		os.Exit(95)
	}
}

// AssertBytesEq asserts that two byte strings are equal.
func AssertBytesEq(a, b []byte, label string) {
	if len(a) != len(b) {
		Assert(false, label+" (length)")
	}
	for i := range a {
		if a[i] != b[i] {
			fmt.Printf("VSYM-DIFF index=%d got=%02x want=%02x\n", i, a[i], b[i])
			Assert(false, label+" (content)")
		}
	}
}

// Reach marks a program point that some path must reach (vacuity guard).
func Reach(label string) { fmt.Println("VSYM-REACH " + label) }

// Tag names an input class; used to identify known findings.
func Tag(name string, c bool) {
	if c {
		fmt.Println("VSYM-TAG " + name)
	}
}

// AllocBound: every make([]byte, n) on the path must satisfy n <= limit.
func AllocBound(limit int) { allocLimit = limit }

var allocLimit int

// MustTerminate: exceeding the engine's unwinding bounds counts as a violation.
func MustTerminate() {}

// AllowPanic / AllowExit: a panic / process exit on this path is not a violation of the harness.
func AllowPanic() {}
func AllowExit()  {}

// Stop ends the path.
func Stop() { fmt.Println("VSYM-STOP"); os.Exit(0) }

// Pick returns a solver-chosen value in [0,n), explored exhaustively by forking.
func Pick(name string, n int) int { return int(scalar(name)) }

// Concrete forks over the feasible values of x (at most limit) so that x is concrete afterwards.
func Concrete(x int, limit int) int { return x }

// Fixture returns the bytes of a file of the repository (path relative to its root).
func Fixture(path string) []byte {
	_, file, _, _ := runtime.Caller(0)
	_ = file
	root := os.Getenv("VSYM_REPO")
	if root == "" {
		root = "/repo"
	}
	b, err := os.ReadFile(filepath.Join(root, path))
	if err != nil {
		fmt.Println("VSYM-ERROR fixture:", err)
		os.Exit(97)
	}
	return b
}

// Symbolic reports whether the harness runs under the symbolic executor.
func Symbolic() bool { return false }

// Begin marks the start of the calls under test; everything reachable from roots is pre-state.
func Begin(roots ...interface{}) {}

// AssertReadOnly: no store since Begin hit an object of the pre-state (decided by the executor's
// write log; natively a no-op: replay of such a finding is by the race detector, see DESIGN.md C19).
func AssertReadOnly(label string) {}

// HashInjectiveAt instantiates collision resistance of the hash model at one index: two hash
// applications made afterwards with equal digests have equal lengths and the same byte at index j.
// (Natively SHA-256 is used and this does nothing.)
func HashInjectiveAt(j int) {}

// Concurrent names the read-only operations of a harness.  Under the executor it does nothing (the
// operations have been run sequentially between Begin and AssertReadOnly, where the write set is
// computed).  Natively it does nothing either, except in race-detector replays (place it right after Begin, so the operations meet the object untouched) (VSYM_RACE=1, test
// binary built with -race): then every operation runs twice, all from separate goroutines.
func Concurrent(ops ...func()) {
	if os.Getenv("VSYM_RACE") != "1" {
		return
	}
	var wg sync.WaitGroup
	for round := 0; round < 2; round++ {
		for _, op := range ops {
			wg.Add(1)
			go func(op func()) {
				defer wg.Done()
				op()
			}(op)
		}
	}
	wg.Wait()
}

func Observe(name string, v uint64)      { fmt.Printf("VSYM-OBS %s=%d\n", name, v) }
func ObserveBytes(name string, b []byte) { fmt.Printf("VSYM-OBS %s=%s\n", name, hex.EncodeToString(b)) }

var _ = strings.TrimSpace

// And, Or, Implies combine conditions without branching (Go's && and || are control flow and
// would make the executor fork).
func And(cs ...bool) bool {
	for _, c := range cs {
		if !c {
			return false
		}
	}
	return true
}
func Or(cs ...bool) bool {
	for _, c := range cs {
		if c {
			return true
		}
	}
	return false
}
func Implies(a, b bool) bool { return !a || b }

// IteU8 / IteU32 / IteU64 / IteInt select a value without branching.
func IteU8(c bool, a, b uint8) uint8 {
	if c {
		return a
	}
	return b
}
func IteU32(c bool, a, b uint32) uint32 {
	if c {
		return a
	}
	return b
}
func IteU64(c bool, a, b uint64) uint64 {
	if c {
		return a
	}
	return b
}
func IteInt(c bool, a, b int) int {
	if c {
		return a
	}
	return b
}

// PEMLen sets the length of the DER bytes the uninterpreted pem.Decode model yields.  Natively
// the real encoding/pem is used, so harnesses that rely on the model describe their PEM inputs
// through PEMOf.
func PEMLen(n int) {}

// PEMOf returns the PEM (CERTIFICATE) text of der.  Under the executor the text is opaque and
// pem.Decode of it yields der.
func PEMOf(der []byte) []byte {
	return pem.EncodeToMemory(&pem.Block{Type: "CERTIFICATE", Bytes: der})
}

// EnableFaults lets the harness signer fail (the fault bit "fault.sign.<name>" becomes symbolic).
func EnableFaults() {}
