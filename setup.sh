#!/bin/sh
# Builds the symbolic executor from files on disk only (offline).
set -e
cd "$(dirname "$0")/engine"
export GOFLAGS=-mod=mod GOPROXY=off GOSUMDB=off GOTOOLCHAIN=local CGO_ENABLED=0
go build -o ../bin/vcheck .
