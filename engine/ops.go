package main

import (
	"fmt"
	"go/token"
	"go/types"
	"unicode/utf8"

	"golang.org/x/tools/go/ssa"
)

// ---- load / store ----

func (e *Eng) load(T types.Type, p Value, pos token.Pos) Value {
	switch p := p.(type) {
	case *Value:
		if p == nil {
			e.throw("invalid memory address or nil pointer dereference", pos)
		}
		return e.copyVal(*p)
	case BytePtr:
		return e.bread(p.Obj.cont, p.Idx)
	case NilPtr:
		e.throw("invalid memory address or nil pointer dereference", pos)
	}
	panic(fmt.Sprintf("load through %T", p))
}

func (e *Eng) store(T types.Type, p Value, v Value, pos token.Pos) {
	switch p := p.(type) {
	case *Value:
		if p == nil {
			e.throw("invalid memory address or nil pointer dereference", pos)
		}
		e.storeSlot(p, v)
		return
	case BytePtr:
		e.bwrite(p.Obj, p.Idx, v.(*Term))
		return
	case NilPtr:
		e.throw("invalid memory address or nil pointer dereference", pos)
	}
	panic(fmt.Sprintf("store through %T", p))
}

// ---- unary ----

func (e *Eng) unop(fr *frame, instr *ssa.UnOp, x Value) Value {
	switch instr.Op {
	case token.MUL:
		return e.load(instr.Type(), x, instr.Pos())
	case token.NOT:
		return e.tb.BNot(x.(*Term))
	case token.SUB:
		switch x := x.(type) {
		case *Term:
			return e.tb.Neg(x)
		case float64:
			return -x
		}
	case token.XOR:
		return e.tb.Not(x.(*Term))
	case token.ARROW:
		e.unsupported("channel receive")
	}
	panic(fmt.Sprintf("unop %s on %T", instr.Op, x))
}

// ---- conversions of integer index operands to 64 bits ----

func (e *Eng) idx64(t *Term, T types.Type) *Term {
	_, signed, _ := intWidth(T)
	return e.tb.Resize(t, 64, signed)
}

// ---- binary ----

func (e *Eng) binop(op token.Token, T types.Type, x, y Value, TY types.Type, pos token.Pos) Value {
	tb := e.tb
	switch op {
	case token.EQL:
		return e.equal(T, x, y)
	case token.NEQ:
		return tb.BNot(e.equal(T, x, y))
	}
	switch xv := x.(type) {
	case *Term:
		yv := y.(*Term)
		w, signed, _ := intWidth(T)
		switch op {
		case token.ADD:
			return tb.Add(xv, yv)
		case token.SUB:
			return tb.Sub(xv, yv)
		case token.MUL:
			return tb.Mul(xv, yv)
		case token.QUO, token.REM:
			if !e.Decide(tb.BNot(tb.Eq(yv, tb.Const(w, 0)))) {
				e.throw("integer divide by zero", pos)
			}
			if signed {
				if op == token.QUO {
					return tb.Bin(OpSDiv, xv, yv)
				}
				return tb.Bin(OpSRem, xv, yv)
			}
			if op == token.QUO {
				return tb.Bin(OpUDiv, xv, yv)
			}
			return tb.Bin(OpURem, xv, yv)
		case token.AND:
			if w == 0 {
				return tb.And(xv, yv)
			}
			return tb.Bin(OpAnd, xv, yv)
		case token.OR:
			if w == 0 {
				return tb.Or(xv, yv)
			}
			return tb.Bin(OpOr, xv, yv)
		case token.XOR:
			if w == 0 {
				return tb.BNot(tb.Eq(xv, yv))
			}
			return tb.Bin(OpXor, xv, yv)
		case token.AND_NOT:
			return tb.Bin(OpAnd, xv, tb.Not(yv))
		case token.SHL, token.SHR:
			_, ysigned, _ := intWidth(TY)
			if ysigned {
				if !e.Decide(tb.Sle(tb.Const(yv.W, 0), yv)) {
					e.throw("negative shift amount", pos)
				}
			}
			big := tb.Ule(tb.Const(yv.W, uint64(w)), yv)
			amt := tb.Resize(yv, w, false)
			if yv.W < w {
				amt = tb.ZExt(yv, w)
			}
			var sh, over *Term
			switch {
			case op == token.SHL:
				sh, over = tb.Bin(OpShl, xv, amt), tb.Const(w, 0)
			case signed:
				sh = tb.Bin(OpAShr, xv, amt)
				over = tb.Bin(OpAShr, xv, tb.Const(w, uint64(w-1)))
			default:
				sh, over = tb.Bin(OpLShr, xv, amt), tb.Const(w, 0)
			}
			return tb.Ite(big, over, sh)
		case token.LSS:
			if signed {
				return tb.Slt(xv, yv)
			}
			return tb.Ult(xv, yv)
		case token.LEQ:
			if signed {
				return tb.Sle(xv, yv)
			}
			return tb.Ule(xv, yv)
		case token.GTR:
			if signed {
				return tb.Slt(yv, xv)
			}
			return tb.Ult(yv, xv)
		case token.GEQ:
			if signed {
				return tb.Sle(yv, xv)
			}
			return tb.Ule(yv, xv)
		}
	case float64:
		yv := y.(float64)
		switch op {
		case token.ADD:
			return xv + yv
		case token.SUB:
			return xv - yv
		case token.MUL:
			return xv * yv
		case token.QUO:
			return xv / yv
		case token.LSS:
			return tb.Bool(xv < yv)
		case token.LEQ:
			return tb.Bool(xv <= yv)
		case token.GTR:
			return tb.Bool(xv > yv)
		case token.GEQ:
			return tb.Bool(xv >= yv)
		}
	case string, SymStr:
		if op == token.ADD {
			return e.strConcat(x, y)
		}
		xs, ok1 := x.(string)
		ys, ok2 := y.(string)
		if ok1 && ok2 {
			switch op {
			case token.LSS:
				return tb.Bool(xs < ys)
			case token.LEQ:
				return tb.Bool(xs <= ys)
			case token.GTR:
				return tb.Bool(xs > ys)
			case token.GEQ:
				return tb.Bool(xs >= ys)
			}
		}
		e.unsupported("ordering comparison of symbolic strings")
	}
	panic(fmt.Sprintf("binop %s on %T, %T", op, x, y))
}

func (e *Eng) strConcat(x, y Value) Value {
	xs, ok1 := x.(string)
	ys, ok2 := y.(string)
	if ok1 && ok2 {
		return xs + ys
	}
	a, b := e.strView(x), e.strView(y)
	n := e.tb.Add(a.Len, b.Len)
	o := e.newObj(n, "strcat")
	e.bcopy(o, e.tb.I64(0), a.Len, a.Obj.cont, a.Off)
	e.bcopy(o, a.Len, b.Len, b.Obj.cont, b.Off)
	return e.strVal(SliceVal{o, e.tb.I64(0), n, n})
}

// bytesEq builds the term "views a and b hold equal byte strings".
// At least one length must be concrete, or both views must be known to be short.
func (e *Eng) bytesEq(a, b SliceVal) *Term {
	tb := e.tb
	if a.Len.IsConst() && b.Len.IsConst() && a.Len.C != b.Len.C {
		return tb.F
	}
	var n uint64
	switch {
	case a.Len.IsConst():
		n = a.Len.C
	case b.Len.IsConst():
		n = b.Len.C
	default:
		// both symbolic: concretise the length of a by forking over its feasible values
		n = e.concretize(a.Len, 4096)
		a.Len = tb.Const(64, n)
	}
	conds := []*Term{tb.Eq(a.Len, b.Len)}
	if n > 1<<16 {
		e.unsupported("byte-string comparison of %d bytes", n)
	}
	for i := uint64(0); i < n; i++ {
		ci := tb.Const(64, i)
		conds = append(conds, tb.Eq(e.sliceAt(a, ci), e.sliceAt(b, ci)))
		if conds[len(conds)-1].IsFalse() {
			return tb.F
		}
	}
	return tb.And(conds...)
}

// concretize forks over the feasible values of t (at most limit of them) and returns the chosen one.
func (e *Eng) concretize(t *Term, limit uint64) uint64 {
	if t.IsConst() {
		return t.C
	}
	if e.path != nil {
		if r := e.path.binds.rewrite(t, e.tb); r.IsConst() {
			return r.C
		}
	}
	// ask the solver for a value, then decide "t == v"; the other side explores the rest
	for n := uint64(0); ; n++ {
		if n > limit {
			e.unsupported("concretisation exceeded %d values", limit)
		}
		v, ok := e.anyValue(t)
		if !ok {
			panic(pathEnd{kind: endInfeasible, msg: "no value for concretisation"})
		}
		if e.Decide(e.tb.Eq(t, e.tb.Const(t.W, v))) {
			return v
		}
	}
}

func (e *Eng) equal(T types.Type, x, y Value) *Term {
	tb := e.tb
	switch xv := x.(type) {
	case *Term:
		return tb.Eq(xv, y.(*Term))
	case float64:
		return tb.Bool(xv == y.(float64))
	case string:
		if ys, ok := y.(string); ok {
			return tb.Bool(xv == ys)
		}
		return e.bytesEq(e.strView(x), e.strView(y))
	case SymStr:
		return e.bytesEq(e.strView(x), e.strView(y))
	case Struct:
		yv := y.(Struct)
		st := T.Underlying().(*types.Struct)
		var cs []*Term
		for i := range xv {
			if st.Field(i).Name() == "_" {
				continue
			}
			cs = append(cs, e.equal(st.Field(i).Type(), xv[i], yv[i]))
		}
		return tb.And(cs...)
	case Array:
		yv := y.(Array)
		et := T.Underlying().(*types.Array).Elem()
		var cs []*Term
		for i := range xv {
			cs = append(cs, e.equal(et, xv[i], yv[i]))
		}
		return tb.And(cs...)
	case BArr:
		yv := y.(BArr)
		n := xv.Obj.size
		z := tb.I64(0)
		return e.bytesEq(SliceVal{xv.Obj, z, n, n}, SliceVal{yv.Obj, z, n, n})
	case Iface:
		yv := y.(Iface)
		if xv.T == nil || yv.T == nil {
			return tb.Bool(xv.T == nil && yv.T == nil)
		}
		if !types.Identical(xv.T, yv.T) {
			return tb.F
		}
		if !types.Comparable(xv.T) {
			panic(goPanic{val: Iface{T: e.runtimeErrT, V: "runtime error: comparing uncomparable type " + xv.T.String()}, msg: "comparing uncomparable type " + xv.T.String()})
		}
		return e.equal(xv.T, xv.V, yv.V)
	case *Value:
		yp, ok := y.(*Value)
		return tb.Bool(ok && xv == yp)
	case NilPtr:
		switch yv := y.(type) {
		case NilPtr:
			return tb.T
		case *Value:
			return tb.Bool(yv == nil)
		}
		return tb.F
	case BytePtr:
		yv, ok := y.(BytePtr)
		if !ok || yv.Obj != xv.Obj {
			return tb.F
		}
		return tb.Eq(xv.Idx, yv.Idx)
	case SliceVal: // only comparable with nil
		yv := y.(SliceVal)
		return tb.Bool((xv.Obj == nil) == (yv.Obj == nil) && (xv.Obj == nil || yv.Obj == nil))
	case []Value:
		yv := y.([]Value)
		return tb.Bool(xv == nil && yv == nil)
	case *MapVal:
		yv, _ := y.(*MapVal)
		return tb.Bool(xv == yv)
	case nil:
		return tb.Bool(y == nil)
	case *ssa.Function, *Closure, *ssa.Builtin:
		return tb.Bool(y == nil && x == nil)
	}
	panic(fmt.Sprintf("equal on %T (%v)", x, T))
}

// ---- conversions ----

func (e *Eng) conv(dst, src types.Type, x Value, pos token.Pos) Value {
	tb := e.tb
	ud, us := dst.Underlying(), src.Underlying()
	if tp, ok := ud.(*types.TypeParam); ok {
		_ = tp
		e.unsupported("conversion to type parameter")
	}
	switch us := us.(type) {
	case *types.Pointer:
		if _, ok := ud.(*types.Pointer); ok {
			return x
		}
		if b, ok := ud.(*types.Basic); ok && b.Kind() == types.UnsafePointer {
			return UnsafePtr{V: x, T: src}
		}
	case *types.Slice:
		if isString(ud) {
			if isByteType(us.Elem()) {
				s := x.(SliceVal)
				return e.strVal(e.freeze(s, "string"))
			}
			// []rune -> string
			rs := x.([]Value)
			var out []rune
			for _, r := range rs {
				t := r.(*Term)
				if !t.IsConst() {
					e.unsupported("symbolic rune slice to string")
				}
				out = append(out, rune(t.SInt()))
			}
			return string(out)
		}
		if _, ok := ud.(*types.Slice); ok {
			return x
		}
	case *types.Basic:
		if isString(us) {
			if sl, ok := ud.(*types.Slice); ok {
				if isByteType(sl.Elem()) {
					v := e.strView(x)
					return e.freeze(v, "bytes")
				}
				// []rune(s)
				s, ok := x.(string)
				if !ok {
					e.unsupported("symbolic string to rune slice")
				}
				var out []Value
				for _, r := range s {
					out = append(out, tb.Const(32, uint64(r)))
				}
				return out
			}
			if isString(ud) {
				return x
			}
		}
		if sw, ssigned, ok := intWidth(us); ok && sw > 0 {
			xv := x.(*Term)
			if dw, _, ok := intWidth(ud); ok && dw > 0 {
				return tb.Resize(xv, dw, ssigned)
			}
			if isString(ud) {
				// string(rune)
				if !xv.IsConst() {
					return e.runeToString(xv, ssigned)
				}
				return string(rune(xv.SInt()))
			}
			if isFloat(ud) {
				if !xv.IsConst() {
					e.unsupported("symbolic int to float")
				}
				if ssigned {
					return float64(xv.SInt())
				}
				return float64(xv.C)
			}
		}
		if isFloat(us) {
			f := x.(float64)
			if isFloat(ud) {
				if ud.(*types.Basic).Kind() == types.Float32 {
					return float64(float32(f))
				}
				return f
			}
			if dw, dsigned, ok := intWidth(ud); ok && dw > 0 {
				if dsigned {
					return tb.Const(dw, uint64(int64(f)))
				}
				return tb.Const(dw, uint64(f))
			}
		}
		if us.Kind() == types.UnsafePointer {
			if up, ok := x.(UnsafePtr); ok {
				if types.Identical(up.T, dst) {
					return up.V
				}
				// debug/pe.readCOFFSymbols reads auxiliary symbol records through a pointer of another
				// struct type of the same size into the record it is about to append.  NewFile never
				// looks at the content of auxiliary records (removeAuxSymbols skips them by count), so
				// the read goes into a scratch record here.  Scoped to that one function.
				if dp, ok := ud.(*types.Pointer); ok && e.curFn != nil && e.curFn.String() == "debug/pe.readCOFFSymbols" {
					if _, ok := dp.Elem().Underlying().(*types.Struct); ok {
						v := e.zero(dp.Elem())
						return &v
					}
				}
			}
			e.unsupported("conversion from unsafe.Pointer")
		}
	}
	e.unsupported("conversion %v -> %v", src, dst)
	return nil
}

// runeToString encodes a symbolic rune as UTF-8 by forking on the length class.
func (e *Eng) runeToString(r *Term, signed bool) Value {
	tb := e.tb
	r = tb.Resize(r, 32, signed)
	c := func(v uint64) *Term { return tb.Const(32, v) }
	b8 := func(t *Term) *Term { return tb.Extract(t, 7, 0) }
	var bs []*Term
	valid := tb.And(tb.Ule(r, c(0x10FFFF)), tb.Or(tb.Ult(r, c(0xD800)), tb.Ult(c(0xDFFF), r)))
	switch {
	case !e.Decide(valid):
		bs = []*Term{tb.Const(8, 0xEF), tb.Const(8, 0xBF), tb.Const(8, 0xBD)}
	case e.Decide(tb.Ult(r, c(0x80))):
		bs = []*Term{b8(r)}
	case e.Decide(tb.Ult(r, c(0x800))):
		bs = []*Term{b8(tb.Bin(OpOr, c(0xC0), tb.Bin(OpLShr, r, c(6)))), b8(tb.Bin(OpOr, c(0x80), tb.Bin(OpAnd, r, c(0x3F))))}
	case e.Decide(tb.Ult(r, c(0x10000))):
		bs = []*Term{b8(tb.Bin(OpOr, c(0xE0), tb.Bin(OpLShr, r, c(12)))),
			b8(tb.Bin(OpOr, c(0x80), tb.Bin(OpAnd, tb.Bin(OpLShr, r, c(6)), c(0x3F)))),
			b8(tb.Bin(OpOr, c(0x80), tb.Bin(OpAnd, r, c(0x3F))))}
	default:
		bs = []*Term{b8(tb.Bin(OpOr, c(0xF0), tb.Bin(OpLShr, r, c(18)))),
			b8(tb.Bin(OpOr, c(0x80), tb.Bin(OpAnd, tb.Bin(OpLShr, r, c(12)), c(0x3F)))),
			b8(tb.Bin(OpOr, c(0x80), tb.Bin(OpAnd, tb.Bin(OpLShr, r, c(6)), c(0x3F)))),
			b8(tb.Bin(OpOr, c(0x80), tb.Bin(OpAnd, r, c(0x3F))))}
	}
	return e.strVal(e.termsSlice(bs, "rune"))
}

func (e *Eng) termsSlice(bs []*Term, name string) SliceVal {
	n := e.tb.I64(int64(len(bs)))
	o := e.newObj(n, name)
	for i, b := range bs {
		if b == nil {
			panic(fmt.Sprintf("termsSlice(%s): nil term at %d of %d", name, i, len(bs)))
		}
		e.bwrite(o, e.tb.I64(int64(i)), b)
	}
	return SliceVal{o, e.tb.I64(0), n, n}
}

// ---- slices, indexing ----

func (e *Eng) makeSlice(T types.Type, ln, cp *Term, lenT types.Type, pos token.Pos) Value {
	tb := e.tb
	ln = e.idx64(ln, lenT)
	cp = e.idx64(cp, lenT)
	// len < 0 or len > cap panics; enormous allocations are an allocation obligation
	okc := tb.And(tb.Sle(tb.I64(0), ln), tb.Sle(ln, cp))
	if !e.Decide(okc) {
		e.throw("makeslice: len out of range", pos)
	}
	st := T.Underlying().(*types.Slice)
	if isByteType(st.Elem()) {
		e.allocCheck(cp, pos)
		if !cp.IsConst() && e.path != nil && e.path.concSplit > 0 && e.curHS != nil && e.curHS.ConcAlloc {
			// case-split small allocation sizes so that offsets derived from them stay concrete
			if e.Decide(tb.Ule(cp, tb.I64(int64(e.path.concSplit)))) {
				same := ln == cp
				v := e.concretize(cp, e.path.concSplit+2)
				cp = tb.Const(64, v)
				if same {
					ln = cp
				}
			}
		}
		o := e.newObj(cp, "make")
		return SliceVal{o, tb.I64(0), ln, cp}
	}
	if !cp.IsConst() {
		// allocation obligation for non-byte slices: capacity times element size
		esz := types.SizesFor("gc", "amd64").Sizeof(st.Elem())
		if esz > 0 && esz < 1<<20 {
			e.allocCheck(tb.Mul(cp, tb.I64(esz)), pos)
		}
		c := e.concretize(cp, 64)
		cp = tb.Const(64, c)
	}
	if !ln.IsConst() {
		l := e.concretize(ln, 64)
		ln = tb.Const(64, l)
	}
	if cp.C > 1<<20 {
		e.unsupported("large non-byte slice")
	}
	s := make([]Value, ln.C, cp.C)
	full := s[:cp.C]
	for i := range full {
		full[i] = e.zero(st.Elem())
	}
	return s
}

func (e *Eng) slice(fr *frame, instr *ssa.Slice) Value {
	tb := e.tb
	x := fr.get(instr.X)
	get := func(v ssa.Value) *Term {
		if v == nil {
			return nil
		}
		return e.idx64(fr.get(v).(*Term), v.Type())
	}
	lo, hi, max := get(instr.Low), get(instr.High), get(instr.Max)
	if lo == nil {
		lo = tb.I64(0)
	}
	pos := instr.Pos()
	sliceBytes := func(obj *ByteObj, off, ln, cp *Term, isStr bool) (SliceVal, bool) {
		if hi == nil {
			hi = ln
		}
		limit := cp
		if isStr {
			limit = ln
		}
		if max == nil {
			max = limit
		}
		ok := tb.And(tb.Ule(lo, hi), tb.Ule(hi, max), tb.Ule(max, limit))
		if !e.Decide(ok) {
			e.throw("slice bounds out of range", pos)
		}
		return SliceVal{obj, tb.Add(off, lo), tb.Sub(hi, lo), tb.Sub(max, lo)}, true
	}
	switch xv := x.(type) {
	case SliceVal:
		if xv.Obj == nil {
			z := tb.I64(0)
			if hi == nil {
				hi = z
			}
			if max == nil {
				max = z
			}
			ok := tb.And(tb.Eq(lo, z), tb.Eq(hi, z), tb.Eq(max, z))
			if !e.Decide(ok) {
				e.throw("slice bounds out of range", pos)
			}
			return xv
		}
		r, _ := sliceBytes(xv.Obj, xv.Off, xv.Len, xv.Cap, false)
		return r
	case string, SymStr:
		if s, ok := xv.(string); ok && lo.IsConst() && (hi == nil || hi.IsConst()) {
			h := uint64(len(s))
			if hi != nil {
				h = hi.C
			}
			if lo.C > h || h > uint64(len(s)) {
				e.throw("slice bounds out of range", pos)
			}
			return s[lo.C:h]
		}
		v := e.strView(x)
		r, _ := sliceBytes(v.Obj, v.Off, v.Len, v.Len, true)
		r.Cap = r.Len
		return e.strVal(r)
	case *Value:
		if xv == nil {
			e.throw("nil pointer dereference (slice of nil array pointer)", pos)
		}
		switch a := (*xv).(type) {
		case BArr:
			n := a.Obj.size
			r, _ := sliceBytes(a.Obj, tb.I64(0), n, n, false)
			return r
		case Array:
			return e.sliceGeneric([]Value(a), lo, hi, max, pos)
		}
	case []Value:
		return e.sliceGeneric(xv, lo, hi, max, pos)
	case NilPtr:
		e.throw("nil pointer dereference (slice of nil array pointer)", pos)
	}
	panic(fmt.Sprintf("slice of %T", x))
}

func (e *Eng) sliceGeneric(s []Value, lo, hi, max *Term, pos token.Pos) Value {
	c := func(t *Term, def int) int {
		if t == nil {
			return def
		}
		return int(e.concretize(t, 256))
	}
	l := c(lo, 0)
	h := c(hi, len(s))
	m := c(max, cap(s))
	if l < 0 || l > h || h > m || m > cap(s) {
		e.throw("slice bounds out of range", pos)
	}
	if s == nil {
		return s
	}
	return s[l:h:m]
}

func (e *Eng) indexAddr(x Value, idx *Term, idxT, xT types.Type, pos token.Pos) Value {
	tb := e.tb
	i := e.idx64(idx, idxT)
	switch xv := x.(type) {
	case SliceVal:
		if !e.Decide(tb.Ult(i, xv.Len)) {
			e.throw("index out of range", pos)
		}
		return BytePtr{xv.Obj, tb.Add(xv.Off, i)}
	case []Value:
		k := e.concIndex(i, len(xv), pos)
		return &xv[k]
	case *Value:
		if xv == nil {
			e.throw("invalid memory address or nil pointer dereference", pos)
		}
		switch a := (*xv).(type) {
		case BArr:
			if !e.Decide(tb.Ult(i, a.Obj.size)) {
				e.throw("index out of range", pos)
			}
			return BytePtr{a.Obj, i}
		case Array:
			k := e.concIndex(i, len(a), pos)
			return &a[k]
		}
	case NilPtr:
		e.throw("invalid memory address or nil pointer dereference", pos)
	}
	panic(fmt.Sprintf("indexAddr of %T", x))
}

// concIndex turns an index into a non-byte sequence into a concrete one, forking if needed.
func (e *Eng) concIndex(i *Term, n int, pos token.Pos) int {
	if !e.Decide(e.tb.Ult(i, e.tb.I64(int64(n)))) {
		e.throw("index out of range", pos)
	}
	return int(e.concretize(i, uint64(n)+1))
}

func (e *Eng) index(x Value, idx *Term, idxT, xT types.Type, pos token.Pos) Value {
	tb := e.tb
	i := e.idx64(idx, idxT)
	switch xv := x.(type) {
	case BArr:
		if !e.Decide(tb.Ult(i, xv.Obj.size)) {
			e.throw("index out of range", pos)
		}
		return e.bread(xv.Obj.cont, i)
	case Array:
		k := e.concIndex(i, len(xv), pos)
		return e.copyVal(xv[k])
	case string:
		if i.IsConst() {
			if i.C >= uint64(len(xv)) {
				e.throw("index out of range", pos)
			}
			return tb.Const(8, uint64(xv[i.C]))
		}
		v := e.strView(xv)
		if !e.Decide(tb.Ult(i, v.Len)) {
			e.throw("index out of range", pos)
		}
		return e.sliceAt(v, i)
	case SymStr:
		if !e.Decide(tb.Ult(i, xv.S.Len)) {
			e.throw("index out of range", pos)
		}
		return e.sliceAt(xv.S, i)
	}
	panic(fmt.Sprintf("index of %T", x))
}

// ---- maps ----

func (e *Eng) mapInsert(m *MapVal, k, v Value) {
	ks, ok := e.keyString(k)
	if !ok {
		e.unsupported("map insert with symbolic key")
	}
	old, had := m.ents[ks]
	e.undo = append(e.undo, undoRec{m: m, key: ks, oldEnt: old, hadEnt: had, oldOrd: m.order})
	if !had {
		m.order = append(append([]string(nil), m.order...), ks)
	}
	m.ents[ks] = &mapEnt{e.copyVal(k), e.copyVal(v)}
}

func (e *Eng) mapDelete(m *MapVal, k Value) {
	if m == nil {
		return
	}
	ks, ok := e.keyString(k)
	if !ok {
		e.unsupported("map delete with symbolic key")
	}
	old, had := m.ents[ks]
	if !had {
		return
	}
	e.undo = append(e.undo, undoRec{m: m, key: ks, oldEnt: old, hadEnt: true, oldOrd: m.order})
	delete(m.ents, ks)
	var no []string
	for _, o := range m.order {
		if o != ks {
			no = append(no, o)
		}
	}
	m.order = no
}

func (e *Eng) mapLookup(m *MapVal, k Value, keyT types.Type) (Value, bool) {
	if m == nil {
		return nil, false
	}
	if ks, ok := e.keyString(k); ok {
		if en, ok := m.ents[ks]; ok {
			return en.v, true
		}
		return nil, false
	}
	// symbolic key: fork over the entries
	for _, ks := range m.order {
		en := m.ents[ks]
		if e.Decide(e.equal(keyT, k, en.k)) {
			return en.v, true
		}
	}
	return nil, false
}

func (e *Eng) lookup(instr *ssa.Lookup, x, k Value) Value {
	switch xv := x.(type) {
	case *MapVal:
		mt := instr.X.Type().Underlying().(*types.Map)
		v, ok := e.mapLookup(xv, k, mt.Key())
		if !ok {
			v = e.zero(mt.Elem())
		} else {
			v = e.copyVal(v)
		}
		if instr.CommaOk {
			return Tuple{v, e.tb.Bool(ok)}
		}
		return v
	case string, SymStr:
		return e.index(x, k.(*Term), instr.Index.Type(), instr.X.Type(), instr.Pos())
	}
	panic(fmt.Sprintf("lookup in %T", x))
}

// ---- range ----

type iter struct {
	m    *MapVal
	keys []string
	str  string
	pos  int
	isS  bool
}

func (e *Eng) rangeIter(x Value, T types.Type) Value {
	switch xv := x.(type) {
	case *MapVal:
		if xv == nil {
			return &iter{}
		}
		return &iter{m: xv, keys: append([]string(nil), xv.order...)}
	case string:
		return &iter{str: xv, isS: true}
	case SymStr:
		e.unsupported("range over symbolic string")
	}
	panic(fmt.Sprintf("range over %T", x))
}

func (e *Eng) next(it *iter, instr *ssa.Next) Value {
	tb := e.tb
	if it.isS {
		if it.pos >= len(it.str) {
			return Tuple{tb.F, tb.I64(0), tb.Const(32, 0)}
		}
		r, n := utf8.DecodeRuneInString(it.str[it.pos:])
		p := it.pos
		it.pos += n
		return Tuple{tb.T, tb.I64(int64(p)), tb.Const(32, uint64(r))}
	}
	for it.pos < len(it.keys) {
		k := it.keys[it.pos]
		it.pos++
		if en, ok := it.m.ents[k]; ok {
			return Tuple{tb.T, e.copyVal(en.k), e.copyVal(en.v)}
		}
	}
	tt := instr.Type().(*types.Tuple)
	return Tuple{tb.F, e.zero(tt.At(1).Type()), e.zero(tt.At(2).Type())}
}

// ---- type assertions ----

func (e *Eng) typeAssert(instr *ssa.TypeAssert, itf Iface) Value {
	var ok bool
	var v Value
	if _, isIface := instr.AssertedType.Underlying().(*types.Interface); isIface {
		v = itf
		if itf.T != nil {
			ok = e.implements(itf.T, instr.AssertedType.Underlying().(*types.Interface))
		}
	} else {
		if itf.T != nil && types.Identical(itf.T, instr.AssertedType) {
			v = e.copyVal(itf.V)
			ok = true
		}
	}
	if !ok {
		if instr.CommaOk {
			return Tuple{e.zero(instr.AssertedType), e.tb.F}
		}
		msg := fmt.Sprintf("interface conversion: interface is %v, not %v", itf.T, instr.AssertedType)
		panic(goPanic{val: Iface{T: e.runtimeErrT, V: msg}, msg: msg, site: e.pos(instr.Pos())})
	}
	if instr.CommaOk {
		return Tuple{v, e.tb.T}
	}
	return v
}

func (e *Eng) implements(T types.Type, iface *types.Interface) bool {
	e.ld.typesMu.Lock()
	defer e.ld.typesMu.Unlock()
	return types.Implements(T, iface)
}
