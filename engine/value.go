package main

// Value representation of the symbolic interpreter.
//
//   scalars (bool, all integer kinds)  *Term
//   float64/float32                    float64 (concrete only)
//   string                             string (concrete) or SymStr (byte view)
//   []byte / []uint8                   SliceVal (view on a ByteObj, symbolic off/len/cap)
//   [N]byte                            BArr (owns a ByteObj of N bytes)
//   other slices                       []Value (Go slice: aliasing = Go's)
//   other arrays                       Array
//   struct                             Struct
//   pointer                            *Value | BytePtr | nil-pointer (NilPtr)
//   interface                          Iface
//   map                                *MapVal
//   func                               *ssa.Function | *ssa.Builtin | *Closure | nil
//   tuple                              Tuple

import (
	"fmt"
	"go/types"
	"sort"
	"strings"

	"golang.org/x/tools/go/ssa"
)

type Value interface{}

type Struct []Value
type Array []Value
type Tuple []Value

type Iface struct {
	T types.Type // nil for the nil interface
	V Value
}

type Closure struct {
	Fn  *ssa.Function
	Env []Value
}

type BoundMethod struct {
	Recv Value
	Fn   *ssa.Function
}

// ---- byte memory ----

const (
	nkZero = iota
	nkArr
	nkConc
	nkStore
	nkCopy
	nkVars
)

type bnode struct {
	kind   int
	prev   *bnode
	arr    *Term   // nkArr: content[i] = select(arr, i)
	conc   []byte  // nkConc: content[i] = conc[i] (0 beyond)
	vars   []*Term // nkVars: content[i] = vars[i] (0 beyond); pure bit-vector encoding of small inputs
	idx    *Term   // nkStore
	val    *Term
	dst, n *Term // nkCopy: content[dst+k] = src[srcOff+k] for k < n
	src    *bnode
	srcOff *Term
	depth  int
}

type ByteObj struct {
	id   int
	size *Term // bytes allocated (BV64)
	cont *bnode
	name string
	born int // store-log position at allocation (objects born after vsym.Begin are local)
}

type SliceVal struct {
	Obj           *ByteObj // nil for a nil slice
	Off, Len, Cap *Term
}

type SymStr struct{ S SliceVal }

type BArr struct{ Obj *ByteObj }

type BytePtr struct {
	Obj *ByteObj
	Idx *Term
}

type NilPtr struct{}

// UnsafePtr is an unsafe.Pointer obtained from a typed pointer; it can only be converted back.
type UnsafePtr struct {
	V Value
	T types.Type
}

// MapVal: concrete keys, insertion ordered.
type mapEnt struct {
	k, v Value
}
type MapVal struct {
	ents  map[string]*mapEnt
	order []string
}

func (m *MapVal) sortedKeys() []string {
	ks := append([]string(nil), m.order...)
	sort.Strings(ks)
	return ks
}

// ---- helpers ----

func isByteType(t types.Type) bool {
	b, ok := t.Underlying().(*types.Basic)
	return ok && (b.Kind() == types.Uint8)
}

func isByteSlice(t types.Type) bool {
	s, ok := t.Underlying().(*types.Slice)
	return ok && isByteType(s.Elem())
}

func isByteArray(t types.Type) bool {
	a, ok := t.Underlying().(*types.Array)
	return ok && isByteType(a.Elem())
}

func intWidth(t types.Type) (w int, signed bool, ok bool) {
	b, isB := t.Underlying().(*types.Basic)
	if !isB {
		return 0, false, false
	}
	switch b.Kind() {
	case types.Bool, types.UntypedBool:
		return 0, false, true
	case types.Int8:
		return 8, true, true
	case types.Int16:
		return 16, true, true
	case types.Int32, types.UntypedRune:
		return 32, true, true
	case types.Int64, types.Int, types.UntypedInt:
		return 64, true, true
	case types.Uint8:
		return 8, false, true
	case types.Uint16:
		return 16, false, true
	case types.Uint32:
		return 32, false, true
	case types.Uint64, types.Uint, types.Uintptr:
		return 64, false, true
	}
	return 0, false, false
}

func isFloat(t types.Type) bool {
	b, ok := t.Underlying().(*types.Basic)
	return ok && b.Info()&types.IsFloat != 0
}

func isString(t types.Type) bool {
	b, ok := t.Underlying().(*types.Basic)
	return ok && b.Info()&types.IsString != 0
}

func (e *Eng) newObj(size *Term, name string) *ByteObj {
	e.nobj++
	return &ByteObj{id: e.nobj, size: size, cont: &bnode{kind: nkZero}, name: name, born: len(e.undo)}
}

func (e *Eng) newConcObj(b []byte, name string) *ByteObj {
	o := e.newObj(e.tb.I64(int64(len(b))), name)
	if len(b) > 0 {
		o.cont = &bnode{kind: nkConc, conc: append([]byte(nil), b...)}
	}
	return o
}

func (e *Eng) setCont(o *ByteObj, n *bnode) {
	e.undo = append(e.undo, undoRec{obj: o, oldCont: o.cont})
	if n.prev != nil {
		n.depth = n.prev.depth + 1
	}
	o.cont = n
}

func (e *Eng) cloneObj(o *ByteObj) *ByteObj {
	n := e.newObj(o.size, o.name)
	n.cont = o.cont
	return n
}

type readKey struct {
	n *bnode
	i int
}

// bread returns the byte at index i of a content snapshot.
func (e *Eng) bread(n *bnode, i *Term) *Term {
	tb := e.tb
	switch n.kind {
	case nkZero:
		return tb.Const(8, 0)
	case nkArr:
		return tb.Select(n.arr, i)
	case nkVars:
		if i.IsConst() {
			if i.C < uint64(len(n.vars)) {
				return n.vars[i.C]
			}
			return tb.Const(8, 0)
		}
		k := readKey{n, i.ID}
		if r, ok := e.readMemo[k]; ok {
			return r
		}
		r := tb.Const(8, 0)
		for j := len(n.vars) - 1; j >= 0; j-- {
			r = tb.Ite(tb.Eq(i, tb.Const(64, uint64(j))), n.vars[j], r)
		}
		e.readMemo[k] = r
		return r
	case nkConc:
		if i.IsConst() {
			if i.C < uint64(len(n.conc)) {
				return tb.Const(8, uint64(n.conc[i.C]))
			}
			return tb.Const(8, 0)
		}
		lo, hi := 0, len(n.conc)-1
		if e.path != nil {
			if iv := e.path.facts[i.ID]; iv != nil {
				if int(iv.ulo) > lo && iv.ulo < uint64(len(n.conc)) {
					lo = int(iv.ulo)
				}
				if iv.uhi < uint64(hi) {
					hi = int(iv.uhi)
				}
			}
		}
		if hi-lo > 1024 {
			// large concrete table read at a symbolic index: mirror the table in an SMT array
			// (created once per path, every cell asserted) and read from that
			if e.path == nil || len(n.conc) > 1<<16 {
				panic(pathEnd{kind: endUnsupported, msg: "symbolic index into a large concrete table"})
			}
			if e.path.tableArr == nil {
				e.path.tableArr = map[*bnode]*Term{}
			}
			arr, ok := e.path.tableArr[n]
			if !ok {
				e.path.uniq++
				arr = tb.ArrVar(fmt.Sprintf("table!%d", e.path.uniq))
				e.path.tableArr[n] = arr
				var cells []*Term
				for j, b := range n.conc {
					cells = append(cells, tb.Eq(tb.Select(arr, tb.Const(64, uint64(j))), tb.Const(8, uint64(b))))
				}
				e.solver.Assert(tb.And(cells...))
				e.path.npc++
			}
			return tb.Ite(tb.Ult(i, tb.Const(64, uint64(len(n.conc)))), tb.Select(arr, i), tb.Const(8, 0))
		}
		k := readKey{n, i.ID}
		if r, ok := e.readMemo[k]; ok {
			return r
		}
		r := tb.Const(8, 0)
		for j := hi; j >= lo; j-- {
			r = tb.Ite(tb.Eq(i, tb.Const(64, uint64(j))), tb.Const(8, uint64(n.conc[j])), r)
		}
		e.readMemo[k] = r
		return r
	}
	k := readKey{n, i.ID}
	if r, ok := e.readMemo[k]; ok {
		return r
	}
	var r *Term
	switch n.kind {
	case nkStore:
		c := tb.Eq(n.idx, i)
		if !c.IsConst() && e.path != nil {
			// interval facts of the path condition often settle "symbolic index = constant"
			if v, ok := e.path.facts.decide(c); ok {
				c = tb.Bool(v)
			}
		}
		if c.IsTrue() {
			r = n.val
		} else if c.IsFalse() {
			r = e.bread(n.prev, i)
		} else {
			r = tb.Ite(c, n.val, e.bread(n.prev, i))
		}
	case nkCopy:
		rel := tb.Sub(i, n.dst)
		c := tb.Ult(rel, n.n)
		if c.IsTrue() {
			r = e.bread(n.src, tb.Add(rel, n.srcOff))
		} else if c.IsFalse() {
			r = e.bread(n.prev, i)
		} else {
			c = e.refine(c)
			if c.IsTrue() {
				r = e.bread(n.src, tb.Add(rel, n.srcOff))
			} else if c.IsFalse() {
				r = e.bread(n.prev, i)
			} else {
				r = tb.Ite(c, e.bread(n.src, tb.Add(rel, n.srcOff)), e.bread(n.prev, i))
			}
		}
	}
	e.readMemo[k] = r
	return r
}

// refine lets an engine option decide read-over-copy guards with the solver
// under the current path condition (keeps formulas small).  Sound: it only
// replaces a guard by a constant the path condition implies.
func (e *Eng) refine(c *Term) *Term {
	if !e.cfg.RefineReads || e.inModel {
		return c
	}
	if v, ok := e.refineMemo[c.ID]; ok {
		switch v {
		case 1:
			return e.tb.T
		case 2:
			return e.tb.F
		}
		return c
	}
	e.stats.RefineQueries++
	r, _ := e.solver.Check([]*Term{c}, nil)
	if r == Unsat {
		e.refineMemo[c.ID] = 2
		return e.tb.F
	}
	r, _ = e.solver.Check([]*Term{e.tb.BNot(c)}, nil)
	if r == Unsat {
		e.refineMemo[c.ID] = 1
		return e.tb.T
	}
	e.refineMemo[c.ID] = 0
	return c
}

func (e *Eng) bwrite(o *ByteObj, i *Term, v *Term) {
	if v.W != 8 {
		panic(fmt.Sprintf("bwrite width %d", v.W))
	}
	e.setCont(o, &bnode{kind: nkStore, prev: o.cont, idx: i, val: v})
}

func (e *Eng) bcopy(dst *ByteObj, dstOff *Term, n *Term, src *bnode, srcOff *Term) {
	if n.IsConst() && n.C == 0 {
		return
	}
	// small concrete copies become stores of the resolved bytes (keeps chains shallow for headers)
	if n.IsConst() && n.C <= 16 && dstOff.IsConst() && srcOff.IsConst() {
		vals := make([]*Term, n.C)
		for k := uint64(0); k < n.C; k++ {
			vals[k] = e.bread(src, e.tb.Const(64, srcOff.C+k))
		}
		for k := uint64(0); k < n.C; k++ {
			e.setCont(dst, &bnode{kind: nkStore, prev: dst.cont, idx: e.tb.Const(64, dstOff.C+k), val: vals[k]})
		}
		return
	}
	e.setCont(dst, &bnode{kind: nkCopy, prev: dst.cont, dst: dstOff, n: n, src: src, srcOff: srcOff})
}

// ---- views ----

func (e *Eng) nilSlice() SliceVal {
	z := e.tb.I64(0)
	return SliceVal{nil, z, z, z}
}

func (e *Eng) concSlice(b []byte) SliceVal {
	o := e.newConcObj(b, "lit")
	n := e.tb.I64(int64(len(b)))
	return SliceVal{o, e.tb.I64(0), n, n}
}

func (e *Eng) sliceAt(s SliceVal, i *Term) *Term {
	if s.Obj == nil {
		panic("read through nil slice")
	}
	return e.bread(s.Obj.cont, e.tb.Add(s.Off, i))
}

// strView returns a byte view of a string value.
func (e *Eng) strView(v Value) SliceVal {
	switch s := v.(type) {
	case string:
		return e.concSlice([]byte(s))
	case SymStr:
		return s.S
	}
	panic(fmt.Sprintf("strView of %T", v))
}

// concBytes returns the concrete bytes of a view if its length and all bytes are constants.
func (e *Eng) concBytes(s SliceVal) ([]byte, bool) {
	if !s.Len.IsConst() {
		return nil, false
	}
	n := s.Len.C
	if n > 1<<24 {
		return nil, false
	}
	if n == 0 {
		return []byte{}, true
	}
	if !s.Off.IsConst() {
		return nil, false
	}
	// fast path: untouched concrete base
	if c := s.Obj.cont; c.kind == nkConc && s.Off.C+n <= uint64(len(c.conc)) {
		return append([]byte(nil), c.conc[s.Off.C:s.Off.C+n]...), true
	}
	out := make([]byte, n)
	for i := uint64(0); i < n; i++ {
		t := e.bread(s.Obj.cont, e.tb.Const(64, s.Off.C+i))
		if !t.IsConst() {
			return nil, false
		}
		out[i] = byte(t.C)
	}
	return out, true
}

// strVal normalises a byte view to a string value (concrete Go string when possible).
func (e *Eng) strVal(s SliceVal) Value {
	if b, ok := e.concBytes(s); ok {
		return string(b)
	}
	return SymStr{s}
}

func (e *Eng) strLen(v Value) *Term {
	switch s := v.(type) {
	case string:
		return e.tb.I64(int64(len(s)))
	case SymStr:
		return s.S.Len
	}
	panic(fmt.Sprintf("strLen of %T", v))
}

// freeze copies a view into a fresh immutable object (string conversion semantics).
func (e *Eng) freeze(s SliceVal, name string) SliceVal {
	if s.Obj == nil {
		return SliceVal{e.newObj(e.tb.I64(0), name), e.tb.I64(0), e.tb.I64(0), e.tb.I64(0)}
	}
	o := e.newObj(s.Len, name)
	e.bcopy(o, e.tb.I64(0), s.Len, s.Obj.cont, s.Off)
	return SliceVal{o, e.tb.I64(0), s.Len, s.Len}
}

// ---- zero values, copying ----

func (e *Eng) zero(t types.Type) Value {
	switch t := t.Underlying().(type) {
	case *types.Basic:
		if w, _, ok := intWidth(t); ok {
			return e.tb.Const(w, 0)
		}
		if t.Info()&types.IsFloat != 0 {
			return float64(0)
		}
		if t.Info()&types.IsString != 0 {
			return ""
		}
		if t.Kind() == types.UnsafePointer {
			return NilPtr{}
		}
		if t.Kind() == types.UntypedNil {
			return NilPtr{}
		}
		if t.Info()&types.IsComplex != 0 {
			return complex128(0)
		}
		panic(fmt.Sprintf("zero of basic %v", t))
	case *types.Struct:
		s := make(Struct, t.NumFields())
		for i := range s {
			s[i] = e.zero(t.Field(i).Type())
		}
		return s
	case *types.Array:
		if isByteType(t.Elem()) {
			return BArr{e.newObj(e.tb.I64(t.Len()), "arr")}
		}
		a := make(Array, t.Len())
		for i := range a {
			a[i] = e.zero(t.Elem())
		}
		return a
	case *types.Slice:
		if isByteType(t.Elem()) {
			return e.nilSlice()
		}
		return []Value(nil)
	case *types.Pointer:
		return NilPtr{}
	case *types.Interface:
		return Iface{}
	case *types.Map:
		return (*MapVal)(nil)
	case *types.Signature:
		return nil
	case *types.Chan:
		return nil
	case *types.Tuple:
		tu := make(Tuple, t.Len())
		for i := range tu {
			tu[i] = e.zero(t.At(i).Type())
		}
		return tu
	}
	panic(fmt.Sprintf("zero of %v", t))
}

func (e *Eng) copyVal(v Value) Value {
	switch v := v.(type) {
	case Struct:
		n := make(Struct, len(v))
		for i := range v {
			n[i] = e.copyVal(v[i])
		}
		return n
	case Array:
		n := make(Array, len(v))
		for i := range v {
			n[i] = e.copyVal(v[i])
		}
		return n
	case BArr:
		return BArr{e.cloneObj(v.Obj)}
	case Tuple:
		n := make(Tuple, len(v))
		for i := range v {
			n[i] = e.copyVal(v[i])
		}
		return n
	}
	return v
}

type undoRec struct {
	slot    *Value
	old     Value
	obj     *ByteObj
	oldCont *bnode
	m       *MapVal
	key     string
	oldEnt  *mapEnt
	hadEnt  bool
	oldOrd  []string
}

// storeSlot writes v into *addr keeping the identity of nested aggregates
// (interior pointers stay valid), logging old leaves for rollback.
func (e *Eng) storeSlot(addr *Value, v Value) {
	switch nv := v.(type) {
	case Struct:
		if cur, ok := (*addr).(Struct); ok && len(cur) == len(nv) {
			for i := range cur {
				e.storeSlot(&cur[i], nv[i])
			}
			return
		}
	case Array:
		if cur, ok := (*addr).(Array); ok && len(cur) == len(nv) {
			for i := range cur {
				e.storeSlot(&cur[i], nv[i])
			}
			return
		}
	case BArr:
		if cur, ok := (*addr).(BArr); ok {
			if cur.Obj != nv.Obj {
				e.setCont(cur.Obj, nv.Obj.cont)
			}
			return
		}
	}
	e.undo = append(e.undo, undoRec{slot: addr, old: *addr})
	*addr = e.copyVal(v)
}

func (e *Eng) rollback(to int) {
	for i := len(e.undo) - 1; i >= to; i-- {
		u := e.undo[i]
		switch {
		case u.slot != nil:
			*u.slot = u.old
		case u.obj != nil:
			u.obj.cont = u.oldCont
		case u.m != nil:
			if u.hadEnt {
				u.m.ents[u.key] = u.oldEnt
			} else {
				delete(u.m.ents, u.key)
			}
			u.m.order = u.oldOrd
		}
	}
	e.undo = e.undo[:to]
}

// ---- map keys ----

// keyString gives a canonical string for a concrete hashable value; ok=false if symbolic.
func (e *Eng) keyString(v Value) (string, bool) {
	var sb strings.Builder
	ok := e.keyStr(&sb, v)
	return sb.String(), ok
}

func (e *Eng) keyStr(sb *strings.Builder, v Value) bool {
	switch v := v.(type) {
	case *Term:
		if !v.IsConst() {
			return false
		}
		fmt.Fprintf(sb, "i%d:%d;", v.W, v.C)
	case string:
		fmt.Fprintf(sb, "s%q;", v)
	case SymStr:
		b, ok := e.concBytes(v.S)
		if !ok {
			return false
		}
		fmt.Fprintf(sb, "s%q;", string(b))
	case float64:
		fmt.Fprintf(sb, "f%v;", v)
	case Struct:
		sb.WriteString("{")
		for _, f := range v {
			if !e.keyStr(sb, f) {
				return false
			}
		}
		sb.WriteString("}")
	case Array:
		sb.WriteString("[")
		for _, f := range v {
			if !e.keyStr(sb, f) {
				return false
			}
		}
		sb.WriteString("]")
	case BArr:
		n := v.Obj.size.C
		sb.WriteString("b")
		for i := uint64(0); i < n; i++ {
			t := e.bread(v.Obj.cont, e.tb.Const(64, i))
			if !t.IsConst() {
				return false
			}
			fmt.Fprintf(sb, "%02x", t.C)
		}
		sb.WriteString(";")
	case Iface:
		if v.T == nil {
			sb.WriteString("nil;")
			return true
		}
		fmt.Fprintf(sb, "I%s:", v.T.String())
		return e.keyStr(sb, v.V)
	case *Value:
		fmt.Fprintf(sb, "p%p;", v)
	case NilPtr:
		sb.WriteString("p0;")
	case BytePtr:
		if !v.Idx.IsConst() {
			return false
		}
		fmt.Fprintf(sb, "bp%d+%d;", v.Obj.id, v.Idx.C)
	case *ssa.Function:
		fmt.Fprintf(sb, "fn%p;", v)
	case nil:
		sb.WriteString("nil;")
	default:
		fmt.Fprintf(sb, "?%T%p;", v, v)
	}
	return true
}
