package main

// reflect.DeepEqual as structural recursion over engine values (no forks: yields a term),
// and the uninterpreted model of encoding/pem.Decode.

import (
	"encoding/pem"
	"fmt"
	"go/types"
)

func (e *Eng) deepEq(T types.Type, a, b Value, depth int) *Term {
	tb := e.tb
	if depth > 40 {
		e.unsupported("reflect.DeepEqual: structure too deep")
	}
	switch t := T.Underlying().(type) {
	case *types.Basic:
		return e.equal(T, a, b)
	case *types.Pointer:
		_, an := a.(NilPtr)
		_, bn := b.(NilPtr)
		ap, aok := a.(*Value)
		bp, bok := b.(*Value)
		if aok && ap == nil {
			an = true
		}
		if bok && bp == nil {
			bn = true
		}
		if an || bn {
			return tb.Bool(an && bn)
		}
		if aok && bok {
			if ap == bp {
				return tb.T
			}
			return e.deepEq(t.Elem(), *ap, *bp, depth+1)
		}
		return e.equal(T, a, b)
	case *types.Struct:
		as, bs := a.(Struct), b.(Struct)
		var cs []*Term
		for i := range as {
			cs = append(cs, e.deepEq(t.Field(i).Type(), as[i], bs[i], depth+1))
		}
		return tb.And(cs...)
	case *types.Array:
		if isByteType(t.Elem()) {
			return e.equal(T, a, b)
		}
		aa, ba := a.(Array), b.(Array)
		var cs []*Term
		for i := range aa {
			cs = append(cs, e.deepEq(t.Elem(), aa[i], ba[i], depth+1))
		}
		return tb.And(cs...)
	case *types.Slice:
		if isByteType(t.Elem()) {
			x, y := a.(SliceVal), b.(SliceVal)
			if (x.Obj == nil) != (y.Obj == nil) {
				return tb.F
			}
			if x.Obj == nil {
				return tb.T
			}
			return e.bytesEq(x, y)
		}
		x, y := a.([]Value), b.([]Value)
		if (x == nil) != (y == nil) || len(x) != len(y) {
			return tb.F
		}
		var cs []*Term
		for i := range x {
			cs = append(cs, e.deepEq(t.Elem(), x[i], y[i], depth+1))
		}
		return tb.And(cs...)
	case *types.Interface:
		x, y := a.(Iface), b.(Iface)
		if x.T == nil || y.T == nil {
			return tb.Bool(x.T == nil && y.T == nil)
		}
		if !types.Identical(x.T, y.T) {
			return tb.F
		}
		return e.deepEq(x.T, x.V, y.V, depth+1)
	case *types.Map:
		x, _ := a.(*MapVal)
		y, _ := b.(*MapVal)
		if (x == nil) != (y == nil) {
			return tb.F
		}
		if x == nil || x == y {
			return tb.T
		}
		if len(x.ents) != len(y.ents) {
			return tb.F
		}
		var cs []*Term
		for k, xe := range x.ents {
			ye, ok := y.ents[k]
			if !ok {
				return tb.F
			}
			cs = append(cs, e.deepEq(t.Elem(), xe.v, ye.v, depth+1))
		}
		return tb.And(cs...)
	case *types.Signature:
		return tb.Bool(a == nil && b == nil)
	}
	e.unsupported("reflect.DeepEqual on %v", T)
	return nil
}

func init() {
	intrinsics["reflect.DeepEqual"] = func(fr *frame, a []Value) Value {
		e := fr.e
		x, y := a[0].(Iface), a[1].(Iface)
		if x.T == nil || y.T == nil {
			return e.tb.Bool(x.T == nil && y.T == nil)
		}
		if !types.Identical(x.T, y.T) {
			return e.tb.F
		}
		return e.deepEq(x.T, x.V, y.V, 0)
	}
	// encoding/pem.Decode(data) (p *Block, rest []byte).  Values made by vsym.PEMOf(der) decode to
	// der; concrete data goes through the real decoder; other symbolic data shorter than any
	// PEM block is not PEM.
	intrinsics["encoding/pem.Decode"] = func(fr *frame, a []Value) Value {
		e := fr.e
		data := a[0].(SliceVal)
		p := e.path
		if data.Obj == nil {
			return Tuple{NilPtr{}, data}
		}
		mkBlock := func(der SliceVal) Value {
			BT := e.namedType("encoding/pem", "Block")
			blk := e.zero(BT).(Struct)
			st := BT.Underlying().(*types.Struct)
			for i := 0; i < st.NumFields(); i++ {
				switch st.Field(i).Name() {
				case "Type":
					blk[i] = "CERTIFICATE"
				case "Bytes":
					blk[i] = der
				case "Headers":
					blk[i] = &MapVal{ents: map[string]*mapEnt{}}
				}
			}
			var bv Value = blk
			return &bv
		}
		if der, ok := p.pemOf[data.Obj]; ok && data.Off.IsConst() && data.Off.C == 0 && data.Len == data.Obj.size {
			return Tuple{mkBlock(der), e.nilSlice()}
		}
		if b, ok := e.concBytes(data); ok {
			blk, rest := pem.Decode(b)
			if blk == nil {
				return Tuple{NilPtr{}, e.concSlice(rest)}
			}
			return Tuple{mkBlock(e.concSlice(blk.Bytes)), e.concSlice(rest)}
		}
		// assumption (listed in the evidence): symbolic raw data is not PEM text; PEM inputs are
		// introduced with vsym.PEMOf
		return Tuple{NilPtr{}, data}
	}
	// vsym.KeyPEM(kind): PEM text of a PKCS#8 private key of the given kind (0 RSA, 1 ECDSA, 2 Ed25519,
	// 3 X25519), 4: a PEM block holding bytes that are not PKCS#8.  crypto/x509.ParsePKCS8PrivateKey is an
	// environment stub on such data: it returns a key of the documented type for the kind, or an error.
	intrinsics[vsymPath+".KeyPEM"] = func(fr *frame, a []Value) Value {
		e := fr.e
		kind := concInt(a[0])
		e.path.uniq++
		der := e.symBytes(fmt.Sprintf("keyder#%d", e.path.uniq), e.tb.I64(8), 8)
		e.path.inputs = e.path.inputs[:len(e.path.inputs)-1]
		txt := e.symBytes(fmt.Sprintf("keypem#%d", e.path.uniq), e.tb.I64(64), 64)
		e.path.inputs = e.path.inputs[:len(e.path.inputs)-1]
		if e.path.pemOf == nil {
			e.path.pemOf = map[*ByteObj]SliceVal{}
		}
		if e.path.keyKind == nil {
			e.path.keyKind = map[*ByteObj]int64{}
		}
		e.path.pemOf[txt.Obj] = der
		e.path.keyKind[der.Obj] = kind
		return txt
	}
	intrinsics["crypto/x509.ParsePKCS8PrivateKey"] = func(fr *frame, a []Value) Value {
		e := fr.e
		der := a[0].(SliceVal)
		fail := func() Value { return Tuple{Iface{}, e.newError("x509: failed to parse private key (model)")} }
		if der.Obj == nil {
			return fail()
		}
		kind, ok := e.path.keyKind[der.Obj]
		if !ok {
			if _, conc := e.concBytes(der); conc {
				return fail() // concrete garbage in the harnesses; real keys come through vsym.KeyPEM
			}
			e.unsupported("x509.ParsePKCS8PrivateKey on symbolic data not made by vsym.KeyPEM")
		}
		ptrTo := func(pkg, name string) Value {
			T := e.namedType(pkg, name)
			v := e.zero(T)
			return Iface{T: types.NewPointer(T), V: &v}
		}
		switch kind {
		case 0:
			return Tuple{ptrTo("crypto/rsa", "PrivateKey"), Iface{}}
		case 1:
			return Tuple{ptrTo("crypto/ecdsa", "PrivateKey"), Iface{}}
		case 2:
			T := e.namedType("crypto/ed25519", "PrivateKey")
			kb := e.symBytes("ed25519key", e.tb.I64(64), 64)
			e.path.inputs = e.path.inputs[:len(e.path.inputs)-1]
			return Tuple{Iface{T: T, V: kb}, Iface{}}
		case 3:
			return Tuple{ptrTo("crypto/ecdh", "PrivateKey"), Iface{}}
		}
		return fail()
	}
	intrinsics[vsymPath+".PEMOf"] = func(fr *frame, a []Value) Value {
		e := fr.e
		der := a[0].(SliceVal)
		if !der.Len.IsConst() {
			e.unsupported("vsym.PEMOf of symbolic-length data")
		}
		n := len(pem.EncodeToMemory(&pem.Block{Type: "CERTIFICATE", Bytes: make([]byte, der.Len.C)}))
		e.path.uniq++
		txt := e.symBytes(fmt.Sprintf("pemtext#%d", e.path.uniq), e.tb.I64(int64(n)), uint64(n))
		// the text is not an input of the replay: natively it is computed from der
		e.path.inputs = e.path.inputs[:len(e.path.inputs)-1]
		if e.path.pemOf == nil {
			e.path.pemOf = map[*ByteObj]SliceVal{}
		}
		e.path.pemOf[txt.Obj] = e.freeze(der, "der")
		return txt
	}
}
