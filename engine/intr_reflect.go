package main

// reflect.DeepEqual as structural recursion over engine values (no forks: yields a term),
// and the uninterpreted model of encoding/pem.Decode.

import (
	"fmt"
	"go/types"
)

func (e *Eng) deepEq(T types.Type, a, b Value, depth int) *Term {
	tb := e.tb
	if depth > 40 {
		e.unsupported("reflect.DeepEqual: structure too deep")
	}
	switch t := T.Underlying().(type) {
	case *types.Basic:
		return e.equal(T, a, b)
	case *types.Pointer:
		_, an := a.(NilPtr)
		_, bn := b.(NilPtr)
		ap, aok := a.(*Value)
		bp, bok := b.(*Value)
		if aok && ap == nil {
			an = true
		}
		if bok && bp == nil {
			bn = true
		}
		if an || bn {
			return tb.Bool(an && bn)
		}
		if aok && bok {
			if ap == bp {
				return tb.T
			}
			return e.deepEq(t.Elem(), *ap, *bp, depth+1)
		}
		return e.equal(T, a, b)
	case *types.Struct:
		as, bs := a.(Struct), b.(Struct)
		var cs []*Term
		for i := range as {
			cs = append(cs, e.deepEq(t.Field(i).Type(), as[i], bs[i], depth+1))
		}
		return tb.And(cs...)
	case *types.Array:
		if isByteType(t.Elem()) {
			return e.equal(T, a, b)
		}
		aa, ba := a.(Array), b.(Array)
		var cs []*Term
		for i := range aa {
			cs = append(cs, e.deepEq(t.Elem(), aa[i], ba[i], depth+1))
		}
		return tb.And(cs...)
	case *types.Slice:
		if isByteType(t.Elem()) {
			x, y := a.(SliceVal), b.(SliceVal)
			if (x.Obj == nil) != (y.Obj == nil) {
				return tb.F
			}
			if x.Obj == nil {
				return tb.T
			}
			return e.bytesEq(x, y)
		}
		x, y := a.([]Value), b.([]Value)
		if (x == nil) != (y == nil) || len(x) != len(y) {
			return tb.F
		}
		var cs []*Term
		for i := range x {
			cs = append(cs, e.deepEq(t.Elem(), x[i], y[i], depth+1))
		}
		return tb.And(cs...)
	case *types.Interface:
		x, y := a.(Iface), b.(Iface)
		if x.T == nil || y.T == nil {
			return tb.Bool(x.T == nil && y.T == nil)
		}
		if !types.Identical(x.T, y.T) {
			return tb.F
		}
		return e.deepEq(x.T, x.V, y.V, depth+1)
	case *types.Map:
		x, _ := a.(*MapVal)
		y, _ := b.(*MapVal)
		if (x == nil) != (y == nil) {
			return tb.F
		}
		if x == nil || x == y {
			return tb.T
		}
		if len(x.ents) != len(y.ents) {
			return tb.F
		}
		var cs []*Term
		for k, xe := range x.ents {
			ye, ok := y.ents[k]
			if !ok {
				return tb.F
			}
			cs = append(cs, e.deepEq(t.Elem(), xe.v, ye.v, depth+1))
		}
		return tb.And(cs...)
	case *types.Signature:
		return tb.Bool(a == nil && b == nil)
	}
	e.unsupported("reflect.DeepEqual on %v", T)
	return nil
}

func init() {
	intrinsics["reflect.DeepEqual"] = func(fr *frame, a []Value) Value {
		e := fr.e
		x, y := a[0].(Iface), a[1].(Iface)
		if x.T == nil || y.T == nil {
			return e.tb.Bool(x.T == nil && y.T == nil)
		}
		if !types.Identical(x.T, y.T) {
			return e.tb.F
		}
		return e.deepEq(x.T, x.V, y.V, 0)
	}
	// encoding/pem.Decode(data) (p *Block, rest []byte): uninterpreted.  Whether data holds a PEM
	// block is a free boolean; the decoded bytes are free bytes of a harness-chosen length
	// (vsym.PEMLen, default 3); same input object => same answer within a path.
	intrinsics["encoding/pem.Decode"] = func(fr *frame, a []Value) Value {
		e := fr.e
		data := a[0].(SliceVal)
		p := e.path
		if data.Obj == nil {
			return Tuple{NilPtr{}, data}
		}
		if b, ok := e.concBytes(data); ok && len(b) < 11 {
			return Tuple{NilPtr{}, data} // shorter than "-----BEGIN " : never a PEM block
		}
		p.uniq++
		is := e.symScalar(fmt.Sprintf("pem.is#%d", p.uniq), 8)
		e.Assume(e.tb.Ule(is, e.tb.Const(8, 1)))
		if !e.Decide(e.tb.Eq(is, e.tb.Const(8, 1))) {
			return Tuple{NilPtr{}, data}
		}
		n := p.pemLen
		if n == 0 {
			n = 3
		}
		der := e.symBytes(fmt.Sprintf("pem.der#%d", p.uniq), e.tb.I64(int64(n)), uint64(n))
		BT := e.namedType("encoding/pem", "Block")
		blk := e.zero(BT).(Struct)
		st := BT.Underlying().(*types.Struct)
		for i := 0; i < st.NumFields(); i++ {
			switch st.Field(i).Name() {
			case "Type":
				blk[i] = "CERTIFICATE"
			case "Bytes":
				blk[i] = der
			}
		}
		var bv Value = blk
		return Tuple{&bv, e.nilSlice()}
	}
}
