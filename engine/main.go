package main

import (
	"go/types"

	"golang.org/x/tools/go/ssa"

	"encoding/json"
	"flag"
	"fmt"
	"os"
	"path/filepath"
	"runtime"
	"sort"
	"strconv"
	"strings"
	"time"
)

func usage() {
	fmt.Fprintln(os.Stderr, `usage:
  vcheck <ID> [--tier quick|thorough] [--harness H] [--jobs N]   run the checks of one property, write evidence/<ID>.json
  vcheck run <Harness> [--jobs N] [-v]                            run one harness (development)
  vcheck list                                                     list properties and harnesses
  vcheck selftest                                                 engine self-tests`)
	os.Exit(2)
}

func main() {
	if len(os.Args) < 2 {
		usage()
	}
	switch os.Args[1] {
	case "list":
		for _, id := range propIDs() {
			p := registry[id]
			fmt.Printf("%s\n", id)
			for _, h := range p.Quick {
				fmt.Printf("  quick    %s\n", h.Name)
			}
			for _, h := range p.Thorough {
				fmt.Printf("  thorough %s\n", h.Name)
			}
		}
	case "run":
		cmdRun(os.Args[2:])
	case "selftest":
		os.Exit(cmdSelftest(os.Args[2:]))
	default:
		os.Exit(cmdCheck(os.Args[1], os.Args[2:]))
	}
}

func cmdRun(args []string) {
	fs := flag.NewFlagSet("run", flag.ExitOnError)
	jobs := fs.Int("jobs", runtime.NumCPU(), "workers")
	verbose := fs.Bool("v", false, "verbose")
	maxPaths := fs.Int("paths", 0, "max paths")
	timeout := fs.Int("timeout", 0, "seconds")
	refine := fs.Bool("refine", false, "solver-refined reads")
	cvc := fs.Bool("cvc5", false, "prefer one-shot portfolio")
	prop := fs.String("prop", "", "property id for known findings")
	concAlloc := fs.Bool("concalloc", false, "case-split allocation sizes")
	opaque := fs.Bool("opaquefmt", false, "opaque Sprintf")
	params := fs.String("params", "", "k=v,k=v harness parameters")
	incrMs := fs.Int("incrms", 0, "incremental solver timeout (ms)")
	noReplay := fs.Bool("noreplay", false, "skip native replay")
	if len(args) < 1 {
		usage()
	}
	name := args[0]
	fs.Parse(args[1:])
	ld, err := Load(nil)
	if err != nil {
		fmt.Fprintln(os.Stderr, "load:", err)
		os.Exit(3)
	}
	spec := HarnessSpec{Name: name, MaxPaths: *maxPaths, TimeoutSec: *timeout, Refine: *refine, PreferCVC5: *cvc, ConcAlloc: *concAlloc, OpaqueFmt: *opaque}
	if s, id := findSpec(name); s != nil {
		spec = *s
		if *prop == "" {
			*prop = id
		}
		if *maxPaths > 0 {
			spec.MaxPaths = *maxPaths
		}
		if *timeout > 0 {
			spec.TimeoutSec = *timeout
		}
	}
	if *incrMs > 0 {
		spec.IncrMs = *incrMs
	}
	if *cvc {
		spec.PreferCVC5 = true
	}
	if *params != "" {
		if spec.Params == nil {
			spec.Params = map[string]int{}
		}
		for _, kv := range strings.Split(*params, ",") {
			p := strings.SplitN(kv, "=", 2)
			v, _ := strconv.ParseInt(p[1], 0, 64)
			spec.Params[p[0]] = int(v)
		}
	}
	known := loadKnown(ld.verif)
	hs, err := runHarness(ld, *prop, spec, known, *jobs)
	if hs != nil {
		printRun(hs, *verbose)
	}
	if err != nil {
		fmt.Fprintln(os.Stderr, "ERROR:", err)
		os.Exit(3)
	}
	if !*noReplay {
		n := 0
		for _, f := range hs.Findings {
			if f.Known != "" {
				continue
			}
			if n >= 5 {
				break
			}
			n++
			dir := filepath.Join(ld.verif, "replays", "dev", fmt.Sprintf("%s-%d", name, n))
			rr := replayP(ld, hs.fn, f, dir, spec.Params)
			fmt.Printf("replay %s: %s (expected %s) dir=%s\n", f.Site, rr.Outcome, expectedOutcome(f.Site), dir)
			if *verbose {
				fmt.Println(rr.Tail)
			}
		}
	}
}

func printRun(hs *HarnessRun, verbose bool) {
	fmt.Printf("harness %s: paths=%d outcomes=%v decisions=%d maxdepth=%d unknown=%d wall=%.1fs\n", hs.Name, hs.Paths, hs.Outcomes, hs.Decisions, hs.MaxDepth, hs.Unknowns, hs.Wall.Seconds())
	fmt.Printf("  solver: sat=%d unsat=%d unknown=%d errors=%d oneshot=%d wins=%v incr=%.1fs oneshot=%.1fs max=%.2fs restarts=%d\n", hs.Solver.Sat, hs.Solver.Unsat, hs.Solver.Unknown, hs.Solver.Errors, hs.Solver.OneShot, hs.Solver.OneShotWins, hs.Solver.TimeIncr.Seconds(), hs.Solver.TimeOneShot.Seconds(), hs.Solver.MaxQuery.Seconds(), hs.Solver.Restarts)
	fmt.Printf("  reached: %v\n", hs.Reached)
	if hs.Truncated != "" {
		fmt.Printf("  TRUNCATED: %s\n", hs.Truncated)
	}
	for _, k := range sortedKeys(hs.Msgs) {
		fmt.Printf("  [%d] %s\n", hs.Msgs[k], k)
	}
	for _, k := range sortedKeys(hs.Unsupp) {
		fmt.Printf("  unsupported[%d]: %s\n", hs.Unsupp[k], k)
	}
	seen := map[string]int{}
	for _, f := range hs.Findings {
		key := f.Site + " known=" + f.Known + " tags=" + strings.Join(f.Tags, ",")
		seen[key]++
		if seen[key] == 1 || verbose {
			b, _ := json.Marshal(f.Model)
			s := string(b)
			if len(s) > 600 {
				s = s[:600] + "…"
			}
			fmt.Printf("  FINDING %s msg=%q where=%s prefix=%s model=%s\n", key, f.Msg, f.Where, f.Prefix, s)
		}
	}
	for k, n := range seen {
		if n > 1 {
			fmt.Printf("  (%d× %s)\n", n, k)
		}
	}
	if verbose {
		fmt.Printf("  functions interpreted: %d, intrinsics used: %d\n", len(hs.Funcs), len(hs.Intr))
		for _, k := range sortedKeys(hs.Intr) {
			fmt.Printf("    intrinsic %s ×%d\n", k, hs.Intr[k])
		}
	}
}

// ---- property-level check ----

type Evidence struct {
	PropertyID  string                 `json:"property_id"`
	Tier        string                 `json:"tier"`
	Seed        int                    `json:"seed"`
	Level       string                 `json:"level"`
	Coverage    map[string]interface{} `json:"coverage"`
	Assumptions []string               `json:"assumptions"`
	WallS       float64                `json:"wall_s"`
	Violations  int                    `json:"violations"`
}

func cmdCheck(id string, args []string) int {
	fs := flag.NewFlagSet("check", flag.ExitOnError)
	tier := fs.String("tier", "", "quick|thorough")
	only := fs.String("harness", "", "run only this harness")
	jobs := fs.Int("jobs", runtime.NumCPU(), "workers")
	verbose := fs.Bool("v", false, "verbose")
	fs.Parse(args)
	if *tier == "" {
		*tier = os.Getenv("VERIF_TIER")
	}
	if *tier == "" {
		*tier = "quick"
	}
	seed, _ := strconv.Atoi(os.Getenv("VERIF_SEED"))
	p, ok := registry[id]
	if !ok {
		fmt.Fprintf(os.Stderr, "unknown property %s\n", id)
		return 2
	}
	t0 := time.Now()
	ld, err := Load(nil)
	if err != nil {
		fmt.Fprintln(os.Stderr, "load:", err)
		fmt.Printf("CHECK-BROKEN property=%s cannot load /repo with the harness overlay: %v\n", id, err)
		writeEvidence(ld, id, *tier, seed, nil, p, time.Since(t0), 0, []string{"load failed: " + err.Error()})
		return 0
	}
	specs := p.Quick
	if *tier == "thorough" {
		specs = p.Thorough
		if len(specs) == 0 {
			specs = p.Quick
		}
	}
	known := loadKnown(ld.verif)
	var runs []*HarnessRun
	var notes []string
	violations := 0
	knownPrinted := map[string]bool{}
	for _, spec := range specs {
		if *only != "" && spec.Name != *only {
			continue
		}
		hs, err := runHarness(ld, id, spec, known, *jobs)
		if hs != nil {
			runs = append(runs, hs)
			if *verbose {
				printRun(hs, false)
			}
		}
		if err != nil {
			fmt.Fprintln(os.Stderr, "ENGINE-ERROR:", err)
			notes = append(notes, fmt.Sprintf("%s: engine error, nothing claimed for this harness: %v", spec.Name, firstLine(err.Error())))
			continue
		}
		// vacuity
		for _, l := range spec.NeedReach {
			if hs.Reached[l] == 0 {
				notes = append(notes, fmt.Sprintf("%s: VACUOUS — no path reached %q; nothing claimed for this harness", spec.Name, l))
				fmt.Printf("VACUOUS property=%s harness=%s label=%s\n", id, spec.Name, l)
			}
		}
		// translator validation: replay witnesses of completed paths natively; they must run clean
		nw := len(hs.Witnesses)
		if nw > 2 {
			nw = 2
		}
		type wres struct {
			i  int
			rr *ReplayResult
		}
		wch := make(chan wres, nw)
		for i := 0; i < nw; i++ {
			go func(i int) {
				w := hs.Witnesses[i]
				f := &Finding{Harness: spec.Name, Site: "witness", Model: w.Witness}
				dir := filepath.Join(ld.verif, "replays", id, fmt.Sprintf("%s-witness-%d", spec.Name, i+1))
				wch <- wres{i, replayP(ld, hs.fn, f, dir, spec.Params)}
			}(i)
		}
		for i := 0; i < nw; i++ {
			r := <-wch
			if r.rr.Outcome == "clean" {
				hs.WitnessOK++
			} else if strings.HasPrefix(r.rr.Outcome, "assert-fail:") {
				// the native run is the ground truth: the real code fails a property assertion on this input
				violations++
				dir := filepath.Join(ld.verif, "replays", id, fmt.Sprintf("%s-witness-%d", spec.Name, r.i+1))
				fmt.Printf("VIOLATION property=%s replay=%s\n", id, dir)
				fmt.Printf("  harness=%s native replay of a path witness fails %s (environment-dependent behaviour the model did not pin, e.g. the clock)\n", spec.Name, r.rr.Outcome)
			} else {
				notes = append(notes, fmt.Sprintf("%s: witness %d of a completed path did not run clean natively (%s): ENCODING-MISMATCH, nothing claimed for this harness", spec.Name, r.i+1, r.rr.Outcome))
				fmt.Printf("ENCODING-MISMATCH property=%s harness=%s witness %d native outcome %s\n", id, spec.Name, r.i+1, r.rr.Outcome)
			}
		}
		// concrete fallback: paths the executor could not follow to their end (unsupported construct)
		// are run natively on inputs that reach that point; a failing native run is a violation
		// (one concrete input, reported as such), a clean one claims nothing
		for i, w := range hs.Partials {
			f := &Finding{Harness: spec.Name, Site: "partial", Model: w.Partial}
			dir := filepath.Join(ld.verif, "replays", id, fmt.Sprintf("%s-partial-%d", spec.Name, i+1))
			rr := replayP(ld, hs.fn, f, dir, spec.Params)
			if strings.HasPrefix(rr.Outcome, "assert-fail:") || rr.Outcome == "panic" || rr.Outcome == "exit" {
				violations++
				fmt.Printf("VIOLATION property=%s replay=%s\n", id, dir)
				fmt.Printf("  harness=%s native run fails (%s) on inputs of a path the executor could not follow to its end (%s): one concrete input, not a solver verdict\n", spec.Name, rr.Outcome, firstLine(w.Msg))
			} else {
				notes = append(notes, fmt.Sprintf("%s: a path ended at an unsupported construct (%s); its inputs run %s natively; nothing claimed for that path", spec.Name, firstLine(w.Msg), rr.Outcome))
			}
		}
		// findings
		nrep := 0
		seenSite := map[string]int{}
		for _, f := range hs.Findings {
			if f.Known != "" {
				key := spec.Name + "|" + f.Site + "|" + f.Known
				if !knownPrinted[key] {
					knownPrinted[key] = true
					fmt.Printf("KNOWN-FINDING: property=%s %s [harness=%s site=%s class=%s]\n", id, known.what(id, spec.Name, f.Site, f.Known), spec.Name, f.Site, f.Known)
				}
				continue
			}
			seenSite[f.Site]++
			if seenSite[f.Site] > 2 || nrep >= 8 {
				continue
			}
			nrep++
			dir := filepath.Join(ld.verif, "replays", id, fmt.Sprintf("%s-%d", spec.Name, nrep))
			rr := replayP(ld, hs.fn, f, dir, spec.Params)
			if !rr.Confirms && f.Model != nil {
				if _, ok := f.Model.Scalars["tz.hours"]; ok {
					// time-zone dependent: the native clock is not the model's; retry at the extreme zones
					for _, h := range []int64{14, -12} {
						f.Model.Scalars["tz.hours"] = uint64(h)
						if rr2 := replayP(ld, hs.fn, f, dir, spec.Params); rr2.Confirms {
							rr = rr2
							break
						}
					}
				}
			}
			f.Replay = rr
			if rr.Confirms {
				violations++
				fmt.Printf("VIOLATION property=%s replay=%s\n", id, dir)
				fmt.Printf("  harness=%s site=%s msg=%s native=%s\n", spec.Name, f.Site, f.Msg, rr.Outcome)
			} else if strings.HasPrefix(f.Site, "race:") {
				fmt.Printf("UNDECIDED property=%s harness=%s site=%s the operations store into pre-existing state but the race detector saw no race natively (%s): concurrency safety not concluded for this harness, dir=%s\n", id, spec.Name, f.Site, rr.Outcome, dir)
				notes = append(notes, fmt.Sprintf("%s: %s: stores into pre-existing state without an observed race (%s): concurrency half undecided", spec.Name, f.Site, rr.Outcome))
			} else {
				fmt.Printf("ENCODING-MISMATCH property=%s harness=%s site=%s engine-model does not reproduce natively (native outcome: %s); not reported as a violation, dir=%s\n", id, spec.Name, f.Site, rr.Outcome, dir)
				notes = append(notes, fmt.Sprintf("%s: counterexample for %s did not reproduce natively (%s): encoding or model error, nothing claimed for this site", spec.Name, f.Site, rr.Outcome))
			}
		}
	}
	writeEvidence(ld, id, *tier, seed, runs, p, time.Since(t0), violations, notes)
	if violations > 0 {
		return 1
	}
	fmt.Printf("OK property=%s tier=%s harnesses=%d wall=%.1fs\n", id, *tier, len(runs), time.Since(t0).Seconds())
	return 0
}

func firstLine(s string) string {
	if i := strings.Index(s, "\n"); i >= 0 {
		return s[:i]
	}
	return s
}

func writeEvidence(ld *Loaded, id, tier string, seed int, runs []*HarnessRun, p *Property, wall time.Duration, violations int, notes []string) {
	verif := verifRoot()
	if ld != nil {
		verif = ld.verif
	}
	paths, decisions, replayed := 0, 0, 0
	funcs := map[string]bool{}
	intr := map[string]bool{}
	var samples []interface{}
	var perHarness []interface{}
	q := map[string]int{}
	var solverS float64
	var knownHits []string
	unsupported := map[string]int{}
	for _, hs := range runs {
		paths += hs.Paths
		decisions += hs.Decisions
		for k := range hs.Funcs {
			funcs[k] = true
		}
		for k := range hs.Intr {
			intr[k] = true
		}
		for k, v := range hs.Unsupp {
			unsupported[k] += v
		}
		q["sat"] += hs.Solver.Sat
		q["unsat"] += hs.Solver.Unsat
		q["unknown"] += hs.Solver.Unknown
		q["error"] += hs.Solver.Errors
		q["oneshot_portfolio"] += hs.Solver.OneShot
		solverS += hs.Solver.TimeIncr.Seconds() + hs.Solver.TimeOneShot.Seconds()
		seenK := map[string]bool{}
		replayed += hs.WitnessOK
		for _, f := range hs.Findings {
			if f.Replay != nil {
				replayed++
			}
			if f.Known != "" && !seenK[f.Site+f.Known] {
				seenK[f.Site+f.Known] = true
				knownHits = append(knownHits, fmt.Sprintf("%s %s class=%s", hs.Name, f.Site, f.Known))
			}
		}
		for _, w := range hs.Witnesses {
			if len(samples) < 6 {
				samples = append(samples, map[string]interface{}{"harness": hs.Name, "outcome": w.Outcome, "decisions": w.Decisions, "reached": w.Reached, "input": w.Witness})
			}
		}
		for _, f := range hs.Findings {
			if len(samples) < 10 {
				samples = append(samples, map[string]interface{}{"harness": hs.Name, "finding": f.Site, "known_class": f.Known, "tags": f.Tags, "input": f.Model})
			}
		}
		perHarness = append(perHarness, map[string]interface{}{
			"harness": hs.Name, "paths": hs.Paths, "outcomes": hs.Outcomes, "symbolic_decisions": hs.Decisions, "max_decisions_on_a_path": hs.MaxDepth,
			"solver_unknown_on_paths": hs.Unknowns, "truncated": hs.Truncated, "reached": hs.Reached, "wall_s": round1(hs.Wall.Seconds()),
			"steps": hs.Steps, "bounds": hs.boundsNote(), "unsupported": hs.Unsupp,
		})
	}
	if len(samples) == 0 {
		samples = append(samples, "no path completed")
	}
	var fl, il []string
	for k := range funcs {
		if strings.Contains(k, "zz_verif") || strings.Contains(k, ".VC") {
			continue
		}
		fl = append(fl, k)
	}
	for k := range intr {
		il = append(il, k)
	}
	sort.Strings(fl)
	sort.Strings(il)
	repoFuncs := []string{}
	for _, f := range fl {
		if strings.Contains(f, "foxboron/go-uefi") {
			repoFuncs = append(repoFuncs, f)
		}
	}
	if paths == 0 {
		paths = 1
	}
	if decisions == 0 {
		decisions = 1
	}
	ev := Evidence{PropertyID: id, Tier: tier, Seed: seed, Level: "model_checking", WallS: round1(wall.Seconds()), Violations: violations}
	ev.Coverage = map[string]interface{}{
		"states":                         paths,
		"transitions":                    decisions,
		"traces_validated_against_impl":  replayed,
		"samples":                        samples,
		"exhaustive":                     false,
		"explanation":                    "states = symbolic paths completed (each covers all inputs satisfying its path condition); transitions = solver-decided branch decisions; every assertion and built-in obligation on every path is an SMT query over all values inside the stated bounds",
		"harnesses":                      perHarness,
		"repo_functions_encoded":         repoFuncs,
		"functions_encoded_total":        len(fl),
		"intrinsics_used":                il,
		"queries":                        q,
		"solver_time_s":                  round1(solverS),
		"known_findings_hit":             knownHits,
		"unsupported":                    unsupported,
		"notes":                          notes,
		"process_termination_call_sites": exitSites(ld, id),
		"bounds":                         p.Bounds,
		"outside_bounds":                 p.Outside,
	}
	ev.Assumptions = append([]string{}, p.Assumptions...)
	os.MkdirAll(filepath.Join(verif, "evidence"), 0o755)
	b, _ := json.MarshalIndent(ev, "", " ")
	os.WriteFile(filepath.Join(verif, "evidence", id+".json"), b, 0o644)
}

func round1(f float64) float64 { return float64(int(f*10)) / 10 }

func (hs *HarnessRun) boundsNote() string {
	return fmt.Sprintf("max %d symbolic decisions per path, %d paths, %ds", valOr(hs.MaxDecisions, 600), hs.MaxPaths, hs.TimeoutSec)
}

func valOr(a, b int) int {
	if a != 0 {
		return a
	}
	return b
}

// exitSites enumerates, from the SSA of the library packages, every call site of log.Fatal*,
// os.Exit and every explicit panic (C13/C14: the static part of the quantifier).  A site that an
// explored path reaches ends that path with outcome exit/panic and is reported as a violation, so
// on a passing run every listed site was not reached by any explored path.
func exitSites(ld *Loaded, id string) []string {
	if ld == nil || (id != "C14" && id != "C13" && id != "C15") {
		return nil
	}
	var out []string
	for _, pkg := range ld.prog.AllPackages() {
		pp := pkg.Pkg.Path()
		if !strings.HasPrefix(pp, modPath) || strings.Contains(pp, "/cmd/") || strings.HasSuffix(pp, "/vsym") || strings.Contains(pp, "/tests") || strings.HasSuffix(pp, "asntest") || strings.HasSuffix(pp, "efitest") {
			continue
		}
		var fns []*ssa.Function
		for _, m := range pkg.Members {
			switch m := m.(type) {
			case *ssa.Function:
				fns = append(fns, m)
				fns = append(fns, m.AnonFuncs...)
			case *ssa.Type:
				for _, T := range []types.Type{m.Type(), types.NewPointer(m.Type())} {
					ms := ld.prog.MethodSets.MethodSet(T)
					for i := 0; i < ms.Len(); i++ {
						if f := ld.prog.MethodValue(ms.At(i)); f != nil && f.Pkg == pkg {
							fns = append(fns, f)
							fns = append(fns, f.AnonFuncs...)
						}
					}
				}
			}
		}
		seen := map[*ssa.Function]bool{}
		for _, f := range fns {
			if seen[f] || f.Blocks == nil || strings.HasPrefix(f.Name(), "V") && strings.Contains(f.Name(), "_") || strings.HasPrefix(f.Name(), "v") && strings.Contains(ld.prog.Fset.Position(f.Pos()).Filename, "zz_verif") {
				continue
			}
			seen[f] = true
			if strings.Contains(ld.prog.Fset.Position(f.Pos()).Filename, "zz_verif") {
				continue
			}
			for _, b := range f.Blocks {
				for _, in := range b.Instrs {
					switch in := in.(type) {
					case *ssa.Call:
						if c := in.Call.StaticCallee(); c != nil {
							n := c.String()
							if strings.HasPrefix(n, "log.Fatal") || n == "os.Exit" || strings.HasPrefix(n, "log.Panic") {
								out = append(out, fmt.Sprintf("%s: %s", f.String(), n))
							}
						}
					case *ssa.Panic:
						out = append(out, fmt.Sprintf("%s: panic", f.String()))
					}
				}
			}
		}
	}
	sort.Strings(out)
	return out
}
