package main

// Engine side of the harness API package (…/internal/vsym).

import (
	"encoding/json"
	"fmt"
	"os"
	"path/filepath"
	"runtime/debug"
	"strings"
)

type intrinsic func(fr *frame, args []Value) Value

var intrinsics = map[string]intrinsic{}

// inputs of at most this many bytes are encoded as individual bit-vector variables (no SMT arrays)
const smallInputMax = 1024

const vsymPath = modPath + "/internal/vsym"

func stack() string { return string(debug.Stack()) }

func (e *Eng) uniqueName(name string) string {
	p := e.path
	n := p.names[name]
	p.names[name] = n + 1
	if n == 0 {
		return name
	}
	return fmt.Sprintf("%s#%d", name, n)
}

func mustStr(v Value) string {
	s, ok := v.(string)
	if !ok {
		panic(pathEnd{kind: endUnsupported, msg: "vsym name must be a concrete string"})
	}
	return s
}

func (e *Eng) symScalar(name string, w int) *Term {
	name = e.uniqueName(name)
	t := e.tb.Var(name, w)
	e.path.inputs = append(e.path.inputs, symInput{Name: name, Kind: "scalar", T: t, W: w})
	return t
}

func (e *Eng) symBytes(name string, ln *Term, max uint64) SliceVal {
	name = e.uniqueName(name)
	o := e.newObj(ln, name)
	if e.path.concSplit == 0 {
		e.path.concSplit = 64
	}
	e.path.concSplit += max
	if max <= smallInputMax {
		vars := make([]*Term, max)
		for i := range vars {
			vars[i] = e.tb.Var(fmt.Sprintf("%s[%d]", name, i), 8)
		}
		e.path.inputs = append(e.path.inputs, symInput{Name: name, Kind: "bytes", Len: ln, Max: max, Vars: vars})
		o.cont = &bnode{kind: nkVars, vars: vars}
	} else {
		arr := e.tb.ArrVar(name)
		e.path.inputs = append(e.path.inputs, symInput{Name: name, Kind: "bytes", T: arr, Len: ln, Max: max})
		o.cont = &bnode{kind: nkArr, arr: arr}
	}
	return SliceVal{o, e.tb.I64(0), ln, ln}
}

func concInt(v Value) int64 {
	t := v.(*Term)
	if !t.IsConst() {
		panic(pathEnd{kind: endUnsupported, msg: "vsym bound must be concrete"})
	}
	return t.SInt()
}

func init() {
	reg := func(name string, f intrinsic) { intrinsics[vsymPath+"."+name] = f }
	for _, w := range []int{8, 16, 32, 64} {
		w := w
		reg(fmt.Sprintf("U%d", w), func(fr *frame, a []Value) Value { return fr.e.symScalar(mustStr(a[0]), w) })
	}
	reg("Int", func(fr *frame, a []Value) Value { return fr.e.symScalar(mustStr(a[0]), 64) })
	reg("Bool", func(fr *frame, a []Value) Value {
		e := fr.e
		t := e.symScalar(mustStr(a[0]), 8)
		e.Assume(e.tb.Ule(t, e.tb.Const(8, 1)))
		return e.tb.Eq(t, e.tb.Const(8, 1))
	})
	reg("BytesN", func(fr *frame, a []Value) Value {
		e := fr.e
		n := concInt(a[1])
		return e.symBytes(mustStr(a[0]), e.tb.I64(n), uint64(n))
	})
	reg("Bytes", func(fr *frame, a []Value) Value {
		e := fr.e
		max := concInt(a[1])
		name := mustStr(a[0])
		n := e.path.names[name]
		lname := name + ".len"
		if n > 0 {
			lname = fmt.Sprintf("%s#%d.len", name, n)
		}
		ln := e.tb.Var(lname, 64)
		s := e.symBytes(name, ln, uint64(max))
		e.Assume(e.tb.Ule(ln, e.tb.I64(max)))
		return s
	})
	reg("Assume", func(fr *frame, a []Value) Value { fr.e.Assume(a[0].(*Term)); return nil })
	reg("Assert", func(fr *frame, a []Value) Value {
		e := fr.e
		c := a[0].(*Term)
		label := mustStr(a[1])
		e.vAssert(c, label, fr)
		return nil
	})
	reg("Reach", func(fr *frame, a []Value) Value {
		fr.e.path.reached = append(fr.e.path.reached, mustStr(a[0]))
		return nil
	})
	reg("Tag", func(fr *frame, a []Value) Value {
		fr.e.path.tags = append(fr.e.path.tags, tagRec{mustStr(a[0]), a[1].(*Term)})
		return nil
	})
	reg("AllocBound", func(fr *frame, a []Value) Value {
		e := fr.e
		e.path.allocLimit = e.idx64(a[0].(*Term), fr.fn.Signature.Params().At(0).Type())
		return nil
	})
	reg("MustTerminate", func(fr *frame, a []Value) Value { fr.e.path.mustTerm = true; return nil })
	reg("AllowPanic", func(fr *frame, a []Value) Value { fr.e.path.allowPanic = true; return nil })
	reg("AllowExit", func(fr *frame, a []Value) Value { fr.e.path.allowExit = true; return nil })
	reg("Stop", func(fr *frame, a []Value) Value { panic(pathEnd{kind: endStop}) })
	reg("Pick", func(fr *frame, a []Value) Value {
		// concrete choice in [0,n): forks
		e := fr.e
		n := concInt(a[1])
		t := e.symScalar(mustStr(a[0]), 64)
		e.Assume(e.tb.Ult(t, e.tb.I64(n)))
		v := e.concretize(t, uint64(n)+1)
		return e.tb.I64(int64(v))
	})
	reg("Concrete", func(fr *frame, a []Value) Value {
		// Concrete(x, limit): fork over the feasible values of x
		e := fr.e
		t := a[0].(*Term)
		v := e.concretize(t, uint64(concInt(a[1])))
		return e.tb.Const(t.W, v)
	})
	reg("Fixture", func(fr *frame, a []Value) Value {
		e := fr.e
		p := mustStr(a[0])
		b, err := os.ReadFile(filepath.Join(e.ld.repo, p))
		if err != nil {
			panic(pathEnd{kind: endUnsupported, msg: "fixture: " + err.Error()})
		}
		return e.concSlice(b)
	})
	reg("And", func(fr *frame, a []Value) Value {
		var cs []*Term
		for _, v := range a[0].([]Value) {
			cs = append(cs, v.(*Term))
		}
		return fr.e.tb.And(cs...)
	})
	reg("Or", func(fr *frame, a []Value) Value {
		var cs []*Term
		for _, v := range a[0].([]Value) {
			cs = append(cs, v.(*Term))
		}
		return fr.e.tb.Or(cs...)
	})
	reg("Implies", func(fr *frame, a []Value) Value { return fr.e.tb.Implies(a[0].(*Term), a[1].(*Term)) })
	for _, n := range []string{"IteU8", "IteU32", "IteU64", "IteInt"} {
		reg(n, func(fr *frame, a []Value) Value { return fr.e.tb.Ite(a[0].(*Term), a[1].(*Term), a[2].(*Term)) })
	}
	reg("PEMLen", func(fr *frame, a []Value) Value { fr.e.path.pemLen = int(concInt(a[0])); return nil })
	reg("EnableFaults", func(fr *frame, a []Value) Value { fr.e.path.faultsOn = true; return nil })
	reg("Symbolic", func(fr *frame, a []Value) Value { return fr.e.tb.T })
	reg("Begin", func(fr *frame, a []Value) Value {
		e := fr.e
		p := e.path
		p.writeMark = len(e.undo)
		p.preSlots = map[*Value]bool{}
		p.preObjs = map[*ByteObj]bool{}
		p.preMaps = map[*MapVal]bool{}
		if a[0] != nil {
			for _, r := range a[0].([]Value) {
				e.reach(r, 0)
			}
		}
		return nil
	})
	reg("AssertReadOnly", func(fr *frame, a []Value) Value {
		e := fr.e
		p := e.path
		label := mustStr(a[0])
		n := 0
		what := ""
		for _, u := range e.undo[p.writeMark:] {
			switch {
			case u.slot != nil && p.preSlots[u.slot]:
				n++
				what = "a field or element of the pre-existing object graph"
			case u.obj != nil && p.preObjs[u.obj]:
				n++
				what = "bytes of a pre-existing buffer " + u.obj.name
			case u.m != nil && p.preMaps[u.m]:
				n++
				what = "a pre-existing map"
			}
		}
		p.writeSet += n
		// A non-empty write set is not a violation by itself (a benign cache must not raise an
		// alarm): the concurrency half is then undecided; repeatability is asserted separately.
		if n > 0 {
			p.reached = append(p.reached, "writes-to-prestate:"+label+": "+what)
			// candidate data race: confirmed (or not) by running the harness's vsym.Concurrent
			// operations under the Go race detector on this path's inputs
			e.inModel = true
			fs := e.resolveCandidate(candidate{Site: "race:" + label, Msg: "read-only operations store into " + what + " (shared state): data race when called concurrently", Where: e.pos(fr.callPos)}, e.curHS)
			e.pathFindings = append(e.pathFindings, fs...)
			e.inModel = false
		} else {
			p.reached = append(p.reached, "readonly:"+label)
		}
		return nil
	})
	reg("Concurrent", func(fr *frame, a []Value) Value { return nil }) // native race-detector runs only
	reg("Observe", func(fr *frame, a []Value) Value { return nil })
	reg("ObserveBytes", func(fr *frame, a []Value) Value { return nil })
	reg("AssertBytesEq", func(fr *frame, a []Value) Value {
		e := fr.e
		x, y := a[0].(SliceVal), a[1].(SliceVal)
		label := mustStr(a[2])
		e.vAssert(e.tb.Eq(x.Len, y.Len), label+" (length)", fr)
		if x.Obj == nil || y.Obj == nil {
			return nil
		}
		n := x.Len
		if !n.IsConst() {
			n = y.Len
		}
		if !n.IsConst() && e.ropeEqual(x, y) {
			// proved segment by segment (structural equality of the two byte strings)
			e.stats.RopeHits++
			return nil
		}
		if n.IsConst() && n.C <= 8192 {
			// concrete length: compare position by position (most equalities fold away)
			var cs []*Term
			for i := uint64(0); i < n.C; i++ {
				ci := e.tb.Const(64, i)
				cs = append(cs, e.tb.Eq(e.sliceAt(x, ci), e.sliceAt(y, ci)))
			}
			e.vAssert(e.tb.And(cs...), label+" (content)", fr)
			return nil
		}
		// content at a skolem index
		e.path.uniq++
		k := e.tb.Var(fmt.Sprintf("k!%s!%d", label, e.path.uniq), 64)
		c := e.tb.Or(e.tb.BNot(e.tb.Ult(k, x.Len)), e.tb.Eq(e.sliceAt(x, k), e.sliceAt(y, k)))
		e.vAssertSk(c, label+" (content)", fr, k)
		return nil
	})
}

func (e *Eng) vAssert(c *Term, label string, fr *frame) { e.vAssertSk(c, label, fr, nil) }

// vAssertSk checks an assertion; sk (optional) is a skolem index reported with the finding.
func (e *Eng) vAssertSk(c *Term, label string, fr *frame, sk *Term) {
	p := e.path
	c = p.binds.rewrite(c, e.tb)
	if c.IsTrue() {
		return
	}
	nc := e.tb.BNot(c)
	r := Sat
	if !c.IsFalse() {
		r, _ = e.solver.Check([]*Term{nc}, nil)
	}
	if r == Unknown {
		p.unknowns++
		e.stats.Unsupported["assertion undecided (solver unknown): "+label]++
	}
	if r == Sat {
		e.inModel = true
		where := ""
		if fr != nil {
			where = e.pos(fr.callPos)
		}
		fs := e.resolveCandidate(candidate{Site: "assert:" + label, Cond: nc, Msg: "assertion can fail: " + label, Where: where}, e.curHS)
		if sk != nil {
			for _, f := range fs {
				_ = f
			}
		}
		e.pathFindings = append(e.pathFindings, fs...)
		e.inModel = false
	}
	e.Assume(c)
}

// ---- known findings ----

type KnownFinding struct {
	Property string `json:"property"`
	Harness  string `json:"harness"`
	Site     string `json:"site"`
	Tag      string `json:"tag"`
	What     string `json:"what"`
	Status   string `json:"status"` // "known" | "fixed"
	Commit   string `json:"commit,omitempty"`
}

type KnownFindings struct {
	List []KnownFinding
}

func loadKnown(verif string) *KnownFindings {
	kf := &KnownFindings{}
	b, err := os.ReadFile(filepath.Join(verif, "known_findings.json"))
	if err != nil {
		return kf
	}
	if err := json.Unmarshal(b, &kf.List); err != nil {
		fmt.Fprintln(os.Stderr, "known_findings.json:", err)
	}
	return kf
}

// match returns the tag of a listed known finding covering (harness, site, tags), or "".
// A listed tag "*" covers the whole site.
func (k *KnownFindings) match(prop, harness, site string, tags []string) string {
	if k == nil {
		return ""
	}
	for _, f := range k.List {
		if f.Status != "known" || f.Property != prop || f.Harness != harness {
			continue
		}
		if f.Site != site && !(strings.HasSuffix(f.Site, "*") && strings.HasPrefix(site, strings.TrimSuffix(f.Site, "*"))) {
			continue
		}
		if f.Tag == "*" {
			return "*"
		}
		for _, t := range tags {
			if t == f.Tag {
				return t
			}
		}
	}
	return ""
}

func (k *KnownFindings) what(prop, harness, site, tag string) string {
	for _, f := range k.List {
		if f.Status == "known" && f.Property == prop && f.Harness == harness && (f.Tag == tag) &&
			(f.Site == site || (strings.HasSuffix(f.Site, "*") && strings.HasPrefix(site, strings.TrimSuffix(f.Site, "*")))) {
			return f.What
		}
	}
	return ""
}

// reach collects every slot, byte object and map reachable from v (the pre-state of vsym.Begin).
func (e *Eng) reach(v Value, depth int) {
	p := e.path
	if depth > 200 {
		return
	}
	switch v := v.(type) {
	case *Value:
		if v == nil || p.preSlots[v] {
			return
		}
		p.preSlots[v] = true
		e.reachIn(v, depth+1)
	case Iface:
		if v.T != nil {
			e.reach(v.V, depth+1)
		}
	case SliceVal:
		if v.Obj != nil {
			p.preObjs[v.Obj] = true
		}
	case SymStr:
		if v.S.Obj != nil {
			p.preObjs[v.S.Obj] = true
		}
	case BArr:
		p.preObjs[v.Obj] = true
	case BytePtr:
		p.preObjs[v.Obj] = true
	case Struct:
		for i := range v {
			e.reachIn(&v[i], depth+1)
		}
	case Array:
		for i := range v {
			e.reachIn(&v[i], depth+1)
		}
	case []Value:
		full := v[:cap(v)]
		for i := range full {
			e.reachIn(&full[i], depth+1)
		}
	case *MapVal:
		if v == nil || p.preMaps[v] {
			return
		}
		p.preMaps[v] = true
		for _, en := range v.ents {
			e.reach(en.v, depth+1)
		}
	case *Closure:
		for _, x := range v.Env {
			e.reach(x, depth+1)
		}
	case Tuple:
		for _, x := range v {
			e.reach(x, depth+1)
		}
	}
}

// reachIn marks the slot itself (interior slots of aggregates are store targets too) and descends.
func (e *Eng) reachIn(slot *Value, depth int) {
	p := e.path
	if depth > 200 {
		return
	}
	p.preSlots[slot] = true
	switch v := (*slot).(type) {
	case Struct:
		for i := range v {
			e.reachIn(&v[i], depth+1)
		}
	case Array:
		for i := range v {
			e.reachIn(&v[i], depth+1)
		}
	default:
		e.reach(*slot, depth+1)
	}
}
