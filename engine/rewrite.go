package main

// Path-local constant propagation: when the path condition contains t = c for a
// constant c, later conditions are rewritten with t replaced by c and
// re-simplified.  On case-split paths most conditions fold to constants and never
// reach the solver.  Sound because every binding is implied by the path condition.

type bindTab struct {
	b    map[int]*Term // term ID -> constant
	ver  int
	memo map[int]rwEnt
}

type rwEnt struct {
	ver int
	t   *Term
}

func newBindTab() *bindTab { return &bindTab{b: map[int]*Term{}, memo: map[int]rwEnt{}} }

func (bt *bindTab) learn(c *Term, tb *TB) {
	switch c.Op {
	case OpBAnd:
		for _, a := range c.A {
			bt.learn(a, tb)
		}
	case OpEq:
		a, b := c.A[0], c.A[1]
		if b.IsConst() && !a.IsConst() {
			bt.bind(a, b)
		} else if a.IsConst() && !b.IsConst() {
			bt.bind(b, a)
		}
	case OpBNot:
		x := c.A[0]
		if !x.IsConst() {
			bt.bind(x, tb.F)
		}
	case OpVar, OpUlt, OpUle, OpSlt, OpSle, OpBOr, OpSelect, OpUF, OpIte:
		if c.W == 0 {
			bt.bind(c, tb.T)
		}
	}
}

func (bt *bindTab) bind(t, c *Term) {
	if _, ok := bt.b[t.ID]; ok {
		return
	}
	bt.b[t.ID] = c
	bt.ver++
}

func (tb *TB) rebuild(t *Term, a []*Term) *Term {
	switch t.Op {
	case OpSelect:
		return tb.Select(a[0], a[1])
	case OpAdd, OpSub, OpMul, OpUDiv, OpURem, OpSDiv, OpSRem, OpAnd, OpOr, OpXor, OpShl, OpLShr, OpAShr:
		return tb.Bin(t.Op, a[0], a[1])
	case OpNot:
		return tb.Not(a[0])
	case OpNeg:
		return tb.Neg(a[0])
	case OpConcat:
		return tb.Concat(a[0], a[1])
	case OpExtract:
		return tb.Extract(a[0], int(t.C>>8), int(t.C&0xff))
	case OpZExt:
		return tb.ZExt(a[0], t.W)
	case OpSExt:
		return tb.SExt(a[0], t.W)
	case OpEq:
		return tb.Eq(a[0], a[1])
	case OpUlt, OpUle, OpSlt, OpSle:
		return tb.Cmp(t.Op, a[0], a[1])
	case OpIte:
		return tb.Ite(a[0], a[1], a[2])
	case OpBAnd:
		return tb.And(a...)
	case OpBOr:
		return tb.Or(a...)
	case OpBNot:
		return tb.BNot(a[0])
	case OpUF:
		return tb.UF(t.Name, t.W, a...)
	}
	return t
}

func (bt *bindTab) rewrite(t *Term, tb *TB) *Term {
	if len(bt.b) == 0 {
		return t
	}
	return bt.rw(t, tb)
}

func (bt *bindTab) rw(t *Term, tb *TB) *Term {
	if t.Op == OpConst {
		return t
	}
	if c, ok := bt.b[t.ID]; ok {
		return c
	}
	if len(t.A) == 0 {
		return t
	}
	if m, ok := bt.memo[t.ID]; ok && m.ver == bt.ver {
		return m.t
	}
	changed := false
	na := make([]*Term, len(t.A))
	for i, a := range t.A {
		na[i] = bt.rw(a, tb)
		if na[i] != a {
			changed = true
		}
	}
	r := t
	if changed {
		r = tb.rebuild(t, na)
	}
	bt.memo[t.ID] = rwEnt{bt.ver, r}
	return r
}
