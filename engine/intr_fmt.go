package main

// fmt.Sprintf for the verbs the checked paths use, over possibly symbolic operands.

import (
	"fmt"
	"go/token"
	"go/types"
	"strings"
)

type fmtSpec struct {
	verb  byte
	zero  bool
	minus bool
	plus  bool
	sharp bool
	space bool
	width int
	prec  int
}

func (e *Eng) hexDigit(nib *Term, upper bool) *Term {
	tb := e.tb
	n8 := tb.ZExt(nib, 8)
	a := uint64('a')
	if upper {
		a = 'A'
	}
	return tb.Ite(tb.Ult(n8, tb.Const(8, 10)), tb.Add(n8, tb.Const(8, '0')), tb.Add(n8, tb.Const(8, a-10)))
}

func (e *Eng) constBytes(s string) []*Term {
	out := make([]*Term, len(s))
	for i := 0; i < len(s); i++ {
		out[i] = e.tb.Const(8, uint64(s[i]))
	}
	return out
}

func pad(e *Eng, body []*Term, sp fmtSpec) []*Term {
	if sp.width <= len(body) {
		return body
	}
	n := sp.width - len(body)
	c := byte(' ')
	if sp.zero && !sp.minus {
		c = '0'
	}
	fill := e.constBytes(strings.Repeat(string(c), n))
	if sp.minus {
		return append(body, fill...)
	}
	return append(fill, body...)
}

// fmtHexInt renders an integer term in hex. Symbolic values fork on the number of significant digits
// unless the zero-padded width already covers all digits.
func (e *Eng) fmtHexInt(v *Term, sp fmtSpec, upper bool) []*Term {
	tb := e.tb
	if v.IsConst() {
		f := "%"
		if sp.zero {
			f += "0"
		}
		if sp.width > 0 {
			f += fmt.Sprint(sp.width)
		}
		if upper {
			f += "X"
		} else {
			f += "x"
		}
		return e.constBytes(fmt.Sprintf(f, v.C))
	}
	nd := (v.W + 3) / 4
	digits := make([]*Term, nd) // most significant first
	for i := 0; i < nd; i++ {
		lo := 4 * (nd - 1 - i)
		hi := lo + 3
		if hi >= v.W {
			hi = v.W - 1
		}
		digits[i] = e.hexDigit(tb.ZExt(tb.Extract(v, hi, lo), 4), upper)
	}
	if sp.zero && sp.width >= nd {
		return pad(e, digits, sp)
	}
	// number of significant digits: fork
	sig := nd
	for sig > 1 {
		// is the value < 16^(sig-1) ?
		lim := tb.Const(v.W, uint64(1)<<uint(4*(sig-1)))
		if e.Decide(tb.Ult(v, lim)) {
			sig--
		} else {
			break
		}
	}
	return pad(e, digits[nd-sig:], sp)
}

func (e *Eng) fmtDecInt(v *Term, signed bool, sp fmtSpec) []*Term {
	tb := e.tb
	if v.IsConst() {
		f := "%"
		if sp.zero {
			f += "0"
		}
		if sp.width > 0 {
			f += fmt.Sprint(sp.width)
		}
		f += "d"
		if signed {
			return e.constBytes(fmt.Sprintf(f, v.SInt()))
		}
		return e.constBytes(fmt.Sprintf(f, v.C))
	}
	neg := false
	if signed {
		if e.Decide(tb.Slt(v, tb.Const(v.W, 0))) {
			neg = true
			v = tb.Neg(v)
		}
	}
	// number of digits by forking, digits by division with constants
	maxd := 20
	switch {
	case v.W <= 8:
		maxd = 3
	case v.W <= 16:
		maxd = 5
	case v.W <= 32:
		maxd = 10
	}
	nd := 1
	pow := uint64(10)
	for nd < maxd {
		if pow > mask(v.W) {
			break
		}
		if e.Decide(tb.Ult(v, tb.Const(v.W, pow))) {
			break
		}
		nd++
		if pow > (^uint64(0))/10 {
			break
		}
		pow *= 10
	}
	digits := make([]*Term, nd)
	div := uint64(1)
	for i := nd - 1; i >= 0; i-- {
		q := tb.Bin(OpUDiv, v, tb.Const(v.W, div))
		d := tb.Bin(OpURem, q, tb.Const(v.W, 10))
		digits[i] = tb.Add(tb.Extract(tb.ZExt(d, 64), 7, 0), tb.Const(8, '0'))
		if i > 0 {
			div *= 10
		}
	}
	if neg {
		digits = append(e.constBytes("-"), digits...)
	}
	return pad(e, digits, sp)
}

func (e *Eng) fmtHexBytes(s SliceVal, sp fmtSpec, upper bool) []*Term {
	if !s.Len.IsConst() {
		n := e.concretize(s.Len, 1<<12)
		s.Len = e.tb.Const(64, n)
	}
	var out []*Term
	for i := uint64(0); i < s.Len.C; i++ {
		b := e.sliceAt(s, e.tb.Const(64, i))
		out = append(out, e.hexDigit(e.tb.Extract(b, 7, 4), upper), e.hexDigit(e.tb.Extract(b, 3, 0), upper))
	}
	return pad(e, out, sp)
}

func (e *Eng) viewTerms(s SliceVal) []*Term {
	if !s.Len.IsConst() {
		return nil
	}
	out := make([]*Term, s.Len.C)
	for i := range out {
		out[i] = e.sliceAt(s, e.tb.I64(int64(i)))
		if out[i] == nil {
			var kinds []int
			for n := s.Obj.cont; n != nil; n = n.prev {
				kinds = append(kinds, n.kind)
			}
			panic(fmt.Sprintf("viewTerms: nil byte at %d, off=%v kinds=%v", i, s.Off, kinds))
		}
	}
	return out
}

type fmtPiece struct {
	terms []*Term  // fixed-length piece
	view  SliceVal // or a symbolic-length view
	isV   bool
}

func (e *Eng) sprintf(fr *frame, format string, args []Value) Value {
	var pieces []fmtPiece
	lit := func(s string) {
		if s != "" {
			pieces = append(pieces, fmtPiece{terms: e.constBytes(s)})
		}
	}
	argi := 0
	i := 0
	start := 0
	for i < len(format) {
		if format[i] != '%' {
			i++
			continue
		}
		lit(format[start:i])
		i++
		sp := fmtSpec{prec: -1}
	flags:
		for i < len(format) {
			switch format[i] {
			case '0':
				sp.zero = true
			case '-':
				sp.minus = true
			case '+':
				sp.plus = true
			case '#':
				sp.sharp = true
			case ' ':
				sp.space = true
			default:
				break flags
			}
			i++
		}
		for i < len(format) && format[i] >= '0' && format[i] <= '9' {
			sp.width = sp.width*10 + int(format[i]-'0')
			i++
		}
		if i < len(format) && format[i] == '.' {
			i++
			sp.prec = 0
			for i < len(format) && format[i] >= '0' && format[i] <= '9' {
				sp.prec = sp.prec*10 + int(format[i]-'0')
				i++
			}
		}
		if i >= len(format) {
			lit("%!(NOVERB)")
			break
		}
		sp.verb = format[i]
		i++
		start = i
		if sp.verb == '%' {
			lit("%")
			continue
		}
		if argi >= len(args) {
			lit("%!" + string(sp.verb) + "(MISSING)")
			continue
		}
		arg := args[argi].(Iface)
		argi++
		pieces = append(pieces, e.fmtArg(fr, sp, arg))
	}
	lit(format[start:])
	if argi < len(args) {
		lit("%!(EXTRA)")
	}
	// assemble
	allFixed := true
	for _, p := range pieces {
		if p.isV {
			allFixed = false
		}
	}
	tb := e.tb
	if allFixed {
		var all []*Term
		for pi, p := range pieces {
			for ti, t := range p.terms {
				if t == nil {
					panic(fmt.Sprintf("sprintf(%q): piece %d term %d nil (of %d); arg0=%T %v", format, pi, ti, len(p.terms), args[0].(Iface).V, args[0].(Iface).V))
				}
			}
			all = append(all, p.terms...)
		}
		return e.strVal(e.termsSlice(all, "sprintf"))
	}
	total := tb.I64(0)
	for _, p := range pieces {
		if p.isV {
			total = tb.Add(total, p.view.Len)
		} else {
			total = tb.Add(total, tb.I64(int64(len(p.terms))))
		}
	}
	o := e.newObj(total, "sprintf")
	off := tb.I64(0)
	for _, p := range pieces {
		if p.isV {
			e.bcopy(o, off, p.view.Len, p.view.Obj.cont, p.view.Off)
			off = tb.Add(off, p.view.Len)
		} else {
			for k, t := range p.terms {
				e.bwrite(o, tb.Add(off, tb.I64(int64(k))), t)
			}
			off = tb.Add(off, tb.I64(int64(len(p.terms))))
		}
	}
	return e.strVal(SliceVal{o, tb.I64(0), total, total})
}

func (e *Eng) fmtArg(fr *frame, sp fmtSpec, arg Iface) fmtPiece {
	fixed := func(ts []*Term) fmtPiece { return fmtPiece{terms: ts} }
	if arg.T == nil {
		return fixed(e.constBytes("%!" + string(sp.verb) + "(<nil>)"))
	}
	// errors and Stringers for %s / %v
	if sp.verb == 's' || sp.verb == 'v' || sp.verb == 'q' {
		if e.hasMethod(arg.T, "Error") {
			s := e.callMethod(fr, arg, "Error")
			return e.fmtString(sp, s)
		}
		if e.hasMethod(arg.T, "String") {
			f := e.lookupMethod(arg.T, "String")
			if f != nil && f.Signature.Params().Len() == 0 && f.Signature.Results().Len() == 1 && isString(f.Signature.Results().At(0).Type()) {
				s := e.callMethod(fr, arg, "String")
				return e.fmtString(sp, s)
			}
		}
	}
	switch v := arg.V.(type) {
	case string, SymStr:
		switch sp.verb {
		case 's', 'v':
			return e.fmtString(sp, v)
		case 'x', 'X':
			return fixed(e.fmtHexBytes(e.strView(v), sp, sp.verb == 'X'))
		case 'q':
			if s, ok := v.(string); ok {
				return fixed(e.constBytes(fmt.Sprintf("%q", s)))
			}
		}
	case *Term:
		w, signed, _ := intWidth(arg.T)
		if w == 0 {
			if v.IsConst() {
				return fixed(e.constBytes(fmt.Sprint(v.C != 0)))
			}
			if e.Decide(v) {
				return fixed(e.constBytes("true"))
			}
			return fixed(e.constBytes("false"))
		}
		switch sp.verb {
		case 'd', 'v':
			return fixed(e.fmtDecInt(v, signed, sp))
		case 'x', 'X':
			if signed && !v.IsConst() {
				if e.Decide(e.tb.Slt(v, e.tb.Const(v.W, 0))) {
					r := e.fmtHexInt(e.tb.Neg(v), fmtSpec{}, sp.verb == 'X')
					return fixed(pad(e, append(e.constBytes("-"), r...), sp))
				}
			} else if signed && v.SInt() < 0 {
				return fixed(e.constBytes(fmt.Sprintf("%x", v.SInt())))
			}
			return fixed(e.fmtHexInt(v, sp, sp.verb == 'X'))
		case 'c':
			if v.IsConst() {
				return fixed(e.constBytes(string(rune(v.C))))
			}
		case 's':
			return fixed(e.constBytes("%!s(int)"))
		}
	case SliceVal:
		switch sp.verb {
		case 'x', 'X':
			return fixed(e.fmtHexBytes(v, sp, sp.verb == 'X'))
		case 's':
			return e.fmtString(sp, SymStr{v})
		}
	case BArr:
		n := v.Obj.size
		s := SliceVal{v.Obj, e.tb.I64(0), n, n}
		switch sp.verb {
		case 'x', 'X':
			return fixed(e.fmtHexBytes(s, sp, sp.verb == 'X'))
		}
	}
	// messages only: anything else renders as a placeholder; harnesses never assert on such text
	return fixed(e.constBytes("%!" + string(sp.verb) + "(" + arg.T.String() + ")"))
}

func (e *Eng) fmtString(sp fmtSpec, s Value) fmtPiece {
	if cs, ok := s.(string); ok {
		if sp.verb == 'q' {
			cs = fmt.Sprintf("%q", cs)
		}
		return fmtPiece{terms: pad(e, e.constBytes(cs), sp)}
	}
	v := e.strView(s)
	if v.Len.IsConst() {
		return fmtPiece{terms: pad(e, e.viewTerms(v), sp)}
	}
	if sp.width > 0 {
		e.unsupported("width on symbolic-length string operand")
	}
	return fmtPiece{view: v, isV: true}
}

func init() {
	intrinsics["fmt.Sprintf"] = func(fr *frame, a []Value) Value {
		format, ok := a[0].(string)
		if !ok {
			fr.e.unsupported("symbolic format string")
		}
		var args []Value
		if a[1] != nil {
			args = a[1].([]Value)
		}
		if fr.e.curHS != nil && fr.e.curHS.OpaqueFmt {
			// crash-freedom harnesses do not look at formatted text: no forks on digit counts
			return "<formatted:" + format + ">"
		}
		return fr.e.sprintf(fr, format, args)
	}
	intrinsics["fmt.Sprint"] = func(fr *frame, a []Value) Value {
		e := fr.e
		var args []Value
		if a[0] != nil {
			args = a[0].([]Value)
		}
		f := strings.Repeat("%v", len(args))
		return e.sprintf(fr, f, args)
	}
	for _, n := range []string{"fmt.Println", "fmt.Printf", "fmt.Print", "fmt.Fprintf", "fmt.Fprintln", "fmt.Fprint"} {
		intrinsics[n] = func(fr *frame, a []Value) Value {
			return Tuple{fr.e.tb.I64(0), Iface{}}
		}
	}
	_ = token.NoPos
	_ = types.Typ
}
