package main

import (
	"fmt"
	"os"
)

// Structural ("rope") view of byte strings: a region of a byte object is resolved,
// through its write history, into a list of segments of leaf contents (input
// arrays, concrete tables, zero fill).  Two strings whose ropes are provably equal
// segment by segment are equal; the hash model uses this to give H(x) and H(y) the
// same output terms, so digest comparisons over long symbolic streams do not need a
// relational array query.  Only used to PROVE equality; whenever a step cannot be
// proved the caller falls back to the solver query over the full encoding.

type seg struct {
	base *bnode
	off  *Term
	n    *Term
	val  *Term // single byte given by a term (from an element store); base == nil
}

// prove reports whether the path condition implies c (one unsat query at most, memoised).
func (e *Eng) prove(c *Term) bool {
	p := e.path
	if c.IsTrue() {
		return true
	}
	if c.IsFalse() {
		return false
	}
	if p.trueMemo[c.ID] {
		return true
	}
	c = p.binds.rewrite(c, e.tb)
	if c.IsTrue() {
		return true
	}
	if c.IsFalse() {
		return false
	}
	if c.Op == OpBAnd {
		for _, a := range c.A {
			if !e.prove(a) {
				return false
			}
		}
		return true
	}
	if v, ok := p.facts.decide(c); ok {
		return v
	}
	if p.proveMemo == nil {
		p.proveMemo = map[int]bool{}
	}
	if v, ok := p.proveMemo[c.ID]; ok {
		return v
	}
	// solver-decided proofs are recorded in the decision log: a re-executed prefix must take the
	// same turns even if a solver answer (time-out) would differ
	if p.pos < len(p.prefix) {
		d := p.prefix[p.pos]
		if !d.IsVal {
			panic(fmt.Sprintf("decision prefix mismatch at %d (bool where proof result expected)", p.pos))
		}
		p.pos++
		ok := d.V == 1
		p.proveMemo[c.ID] = ok
		if ok {
			p.trueMemo[c.ID] = true
		}
		return ok
	}
	e.stats.RefineQueries++
	r, _ := e.solver.Check([]*Term{e.tb.BNot(c)}, nil)
	ok := r == Unsat
	p.prefix = append(p.prefix, dec{IsVal: true, V: b2u(ok)})
	p.pos++
	if debugDecide && !ok {
		fmt.Fprintf(os.Stderr, "PROVE-FAIL %s %s\n", r, c.strDepth(5))
	}
	p.proveMemo[c.ID] = ok
	if ok {
		p.trueMemo[c.ID] = true
	}
	return ok
}

func isLeaf(n *bnode) bool {
	return n.kind == nkArr || n.kind == nkConc || n.kind == nkVars || n.kind == nkZero
}

// rope resolves content[a : a+ln) of snapshot n.
func (e *Eng) rope(n *bnode, a, ln *Term, budget *int) ([]seg, bool) {
	tb := e.tb
	if ln.IsConst() && ln.C == 0 {
		return nil, true
	}
	*budget--
	if *budget < 0 {
		return nil, false
	}
	if isLeaf(n) {
		return []seg{{base: n, off: a, n: ln}}, true
	}
	b := tb.Add(a, ln)
	switch n.kind {
	case nkStore:
		if e.prove(tb.Or(tb.Ult(n.idx, a), tb.Ule(b, n.idx))) {
			return e.rope(n.prev, a, ln, budget)
		}
		if e.prove(tb.And(tb.Ule(a, n.idx), tb.Ult(n.idx, b))) {
			left, ok := e.rope(n.prev, a, tb.Sub(n.idx, a), budget)
			if !ok {
				return nil, false
			}
			next := tb.Add(n.idx, tb.I64(1))
			right, ok := e.rope(n.prev, next, tb.Sub(b, next), budget)
			if !ok {
				return nil, false
			}
			return append(append(left, seg{val: n.val, n: tb.I64(1)}), right...), true
		}
		return nil, false
	case nkCopy:
		d := n.dst
		dn := tb.Add(d, n.n)
		if e.prove(tb.And(tb.Ule(d, a), tb.Ule(b, dn))) {
			return e.rope(n.src, tb.Add(n.srcOff, tb.Sub(a, d)), ln, budget)
		}
		if e.prove(tb.Or(tb.Ule(b, d), tb.Ule(dn, a))) {
			return e.rope(n.prev, a, ln, budget)
		}
		if e.prove(tb.And(tb.Ule(a, d), tb.Ule(d, b))) {
			left, ok := e.rope(n.prev, a, tb.Sub(d, a), budget)
			if !ok {
				return nil, false
			}
			if e.prove(tb.Ule(b, dn)) {
				mid, ok := e.rope(n.src, n.srcOff, tb.Sub(b, d), budget)
				if !ok {
					return nil, false
				}
				return append(left, mid...), true
			}
			if e.prove(tb.Ule(dn, b)) {
				mid, ok := e.rope(n.src, n.srcOff, n.n, budget)
				if !ok {
					return nil, false
				}
				right, ok := e.rope(n.prev, dn, tb.Sub(b, dn), budget)
				if !ok {
					return nil, false
				}
				return append(append(left, mid...), right...), true
			}
			return nil, false
		}
		if e.prove(tb.And(tb.Ule(d, a), tb.Ule(a, dn), tb.Ule(dn, b))) {
			mid, ok := e.rope(n.src, tb.Add(n.srcOff, tb.Sub(a, d)), tb.Sub(dn, a), budget)
			if !ok {
				return nil, false
			}
			right, ok := e.rope(n.prev, dn, tb.Sub(b, dn), budget)
			if !ok {
				return nil, false
			}
			return append(mid, right...), true
		}
	}
	return nil, false
}

// normRope drops empty segments and merges contiguous segments of the same leaf.
func (e *Eng) normRope(r []seg) []seg {
	tb := e.tb
	var out []seg
	for _, s := range r {
		if s.n.IsConst() && s.n.C == 0 {
			continue
		}
		if e.path.binds.rewrite(s.n, tb).IsConst() && e.path.binds.rewrite(s.n, tb).C == 0 {
			continue
		}
		if len(out) > 0 && s.val == nil && out[len(out)-1].val == nil {
			l := &out[len(out)-1]
			if l.base == s.base || (l.base.kind == nkZero && s.base.kind == nkZero) {
				if s.base.kind == nkZero || tb.Add(l.off, l.n) == s.off {
					l.n = tb.Add(l.n, s.n)
					continue
				}
			}
		}
		out = append(out, s)
	}
	return out
}

// ropeEqual tries to prove that two views hold the same byte string.
func (e *Eng) ropeEqual(x, y SliceVal) bool {
	if x.Obj == nil || y.Obj == nil {
		return false
	}
	tb := e.tb
	if !e.prove(tb.Eq(x.Len, y.Len)) {
		return false
	}
	bx, by := 400, 400
	rx, ok := e.rope(x.Obj.cont, x.Off, x.Len, &bx)
	if !ok {
		return false
	}
	ry, ok := e.rope(y.Obj.cont, y.Off, y.Len, &by)
	if !ok {
		return false
	}
	rx, ry = e.normRope(rx), e.normRope(ry)
	// drop segments that are provably empty so that both sides line up
	filter := func(r []seg) []seg {
		var out []seg
		for _, s := range r {
			if !s.n.IsConst() && e.prove(tb.Eq(s.n, tb.I64(0))) {
				continue
			}
			out = append(out, s)
		}
		return out
	}
	if len(rx) != len(ry) {
		rx, ry = e.normRope(filter(rx)), e.normRope(filter(ry))
	}
	if len(rx) != len(ry) {
		return false
	}
	for i := range rx {
		a, b := rx[i], ry[i]
		if a.val != nil || b.val != nil {
			va, vb := a.val, b.val
			// a single byte of a leaf segment can match a stored byte
			if va == nil && a.n.IsConst() && a.n.C == 1 {
				va = e.bread(a.base, a.off)
			}
			if vb == nil && b.n.IsConst() && b.n.C == 1 {
				vb = e.bread(b.base, b.off)
			}
			if va == nil || vb == nil || !e.prove(tb.Eq(va, vb)) {
				return false
			}
			continue
		}
		sameBase := a.base == b.base || (a.base.kind == nkZero && b.base.kind == nkZero) ||
			(a.base.kind == nkArr && b.base.kind == nkArr && a.base.arr == b.base.arr)
		if !sameBase {
			return false
		}
		if !e.prove(tb.Eq(a.n, b.n)) {
			return false
		}
		if a.base.kind != nkZero && !e.prove(tb.Eq(a.off, b.off)) {
			return false
		}
	}
	return true
}
