package main

// Loads /repo (VERIF_REPO) with the harness overlay and builds SSA for the
// whole program, dependencies and standard library included, from source.

import (
	"fmt"
	"os"
	"path/filepath"
	"sort"
	"strings"
	"sync"
	"time"

	"golang.org/x/tools/go/packages"
	"golang.org/x/tools/go/ssa"
	"golang.org/x/tools/go/ssa/ssautil"
)

const modPath = "github.com/foxboron/go-uefi"

type Loaded struct {
	prog     *ssa.Program
	pkgs     []*packages.Package
	repo     string
	verif    string
	overlay  map[string][]byte // virtual path -> content
	ovFiles  map[string]string // virtual path -> real path (for go test -overlay)
	typesMu  sync.Mutex
	loadTime time.Duration
	harnPkgs map[string]bool
}

func repoRoot() string {
	if r := os.Getenv("VERIF_REPO"); r != "" {
		return r
	}
	return "/repo"
}

func verifRoot() string {
	if r := os.Getenv("VERIF_ROOT"); r != "" {
		return r
	}
	exe, err := os.Executable()
	if err == nil {
		d := filepath.Dir(filepath.Dir(exe))
		if _, err := os.Stat(filepath.Join(d, "harness")); err == nil {
			return d
		}
	}
	return "/verif"
}

func setGoEnv() {
	os.Setenv("GOFLAGS", "-mod=mod")
	os.Setenv("GOPROXY", "off")
	os.Setenv("GOSUMDB", "off")
	os.Setenv("GOTOOLCHAIN", "local")
	os.Setenv("CGO_ENABLED", "0")
}

// buildOverlay maps harness and vsym files into the repository tree.
func buildOverlay(repo, verif string) (map[string][]byte, map[string]string, map[string]bool, error) {
	ov := map[string][]byte{}
	files := map[string]string{}
	pk := map[string]bool{}
	add := func(virtual, real string) error {
		b, err := os.ReadFile(real)
		if err != nil {
			return err
		}
		ov[virtual] = b
		files[virtual] = real
		return nil
	}
	vs, _ := filepath.Glob(filepath.Join(verif, "vsym", "*.go"))
	for _, f := range vs {
		if err := add(filepath.Join(repo, "internal", "vsym", filepath.Base(f)), f); err != nil {
			return nil, nil, nil, err
		}
	}
	hroot := filepath.Join(verif, "harness")
	err := filepath.Walk(hroot, func(p string, info os.FileInfo, err error) error {
		if err != nil || info.IsDir() || !strings.HasSuffix(p, ".go") {
			return err
		}
		rel, _ := filepath.Rel(hroot, p)
		pk["./"+filepath.Dir(rel)] = true
		return add(filepath.Join(repo, rel), p)
	})
	return ov, files, pk, err
}

func Load(only []string) (*Loaded, error) {
	setGoEnv()
	t0 := time.Now()
	repo, verif := repoRoot(), verifRoot()
	ov, files, pk, err := buildOverlay(repo, verif)
	if err != nil {
		return nil, err
	}
	var patterns []string
	if len(only) > 0 {
		patterns = only
	} else {
		for p := range pk {
			patterns = append(patterns, p)
		}
	}
	sort.Strings(patterns)
	patterns = append(patterns, "./internal/vsym")
	cfg := &packages.Config{
		Mode:    packages.LoadAllSyntax,
		Dir:     repo,
		Overlay: ov,
		Env:     append(os.Environ(), "GOFLAGS=-mod=mod", "GOPROXY=off", "GOSUMDB=off", "GOTOOLCHAIN=local", "CGO_ENABLED=0"),
	}
	pkgs, err := packages.Load(cfg, patterns...)
	if err != nil {
		return nil, err
	}
	nerr := 0
	packages.Visit(pkgs, nil, func(p *packages.Package) {
		for _, e := range p.Errors {
			fmt.Fprintf(os.Stderr, "load error: %s: %v\n", p.PkgPath, e)
			nerr++
		}
	})
	if nerr > 0 {
		return nil, fmt.Errorf("%d package load errors", nerr)
	}
	prog, _ := ssautil.AllPackages(pkgs, ssa.InstantiateGenerics)
	prog.Build()
	return &Loaded{prog: prog, pkgs: pkgs, repo: repo, verif: verif, overlay: ov, ovFiles: files, loadTime: time.Since(t0), harnPkgs: pk}, nil
}

// findHarness locates a harness function "VC08_Foo" in any loaded repository package.
func (ld *Loaded) findHarness(name string) *ssa.Function {
	for _, p := range ld.prog.AllPackages() {
		if !strings.HasPrefix(p.Pkg.Path(), modPath) {
			continue
		}
		if f := p.Func(name); f != nil {
			return f
		}
	}
	return nil
}
