package main

// Signatures, certificates and big integers of the crypto model (DESIGN.md 1.6).
//
//   Sign(key, digest)       fresh signature bytes per (key, digest); deterministic (same key and
//                           digest => same bytes); signatures of different keys never coincide
//   CheckSignature(cert, data, sig)  holds iff sig is the output of a Sign event on this path made
//                           with the certificate's key over H(data)  (unforgeability)
//   *big.Int                sign + big-endian magnitude bytes without leading zeros, kept in the
//                           real struct (one byte term per nat word); only the methods below exist

import (
	"crypto/x509"
	"fmt"
	"go/token"
	"go/types"
	"strings"
)

type signEvent struct {
	key    string
	digest []*Term
	sig    SliceVal
}

const sigLen = 256

func (e *Eng) termsEq(a, b []*Term) *Term {
	if len(a) != len(b) {
		return e.tb.F
	}
	var cs []*Term
	for i := range a {
		cs = append(cs, e.tb.Eq(a[i], b[i]))
	}
	return e.tb.And(cs...)
}

func (e *Eng) viewBytes(s SliceVal, n int) []*Term {
	out := make([]*Term, n)
	for i := range out {
		out[i] = e.sliceAt(s, e.tb.I64(int64(i)))
	}
	return out
}

func (e *Eng) signerName(v Value) string {
	p, ok := v.(*Value)
	if !ok || p == nil {
		e.unsupported("signer is not a vsym.Signer")
	}
	s := (*p).(Struct)
	n, ok := s[0].(string)
	if !ok {
		e.unsupported("signer name must be concrete")
	}
	return n
}

// ---- big.Int (abused representation: abs holds one byte per element, big-endian) ----

func (e *Eng) bigParts(p Value) (neg *Term, mag []Value, slot *Value) {
	pv, ok := p.(*Value)
	if !ok || pv == nil {
		e.throw("nil *big.Int", token.NoPos)
	}
	s := (*pv).(Struct)
	m, _ := s[1].([]Value)
	return s[0].(*Term), m, pv
}

func (e *Eng) bigSet(slot *Value, neg *Term, mag []*Term) {
	var m []Value
	for _, t := range mag {
		m = append(m, e.tb.ZExt(t, 64))
	}
	e.storeSlot(slot, Struct{neg, m})
}

func (e *Eng) newBig(mag []*Term) Value {
	T := e.namedType("math/big", "Int")
	v := e.zero(T)
	p := &v
	e.bigSet(p, e.tb.F, mag)
	return p
}

func (e *Eng) bigMagBytes(mag []Value) []*Term {
	out := make([]*Term, len(mag))
	for i, w := range mag {
		out[i] = e.tb.Extract(w.(*Term), 7, 0)
	}
	return out
}

func init() {
	reg := func(name string, f intrinsic) { intrinsics[name] = f }
	reg(vsymPath+".Signer", func(fr *frame, a []Value) Value {
		e := fr.e
		T := e.namedType(vsymPath, "SymSigner")
		v := e.zero(T)
		s := v.(Struct)
		s[0] = mustStr(a[0])
		return Iface{T: types.NewPointer(T), V: &v}
	})
	reg("(*"+vsymPath+".SymSigner).Sign", func(fr *frame, a []Value) Value {
		e := fr.e
		tb := e.tb
		p := e.path
		name := e.signerName(a[0])
		// fault injection (C15)
		f := e.symScalar("fault.sign."+name, 8)
		e.Assume(tb.Ule(f, tb.Const(8, 1)))
		if p.faultsOn && e.Decide(tb.Eq(f, tb.Const(8, 1))) {
			p.nfault++
			return Tuple{e.nilSlice(), e.newError("injected signer fault")}
		}
		e.Assume(tb.Eq(f, tb.Const(8, 0)))
		dv := a[2].(SliceVal)
		if !dv.Len.IsConst() || dv.Len.C != 32 {
			e.unsupported("Sign: digest must be 32 bytes")
		}
		d := e.viewBytes(dv, 32)
		n := len(p.signs)
		sig := e.symBytes(fmt.Sprintf("S!%d", n), tb.I64(sigLen), sigLen)
		p.inputs = p.inputs[:len(p.inputs)-1] // not an input: computed by the real key in replays
		sb := e.viewBytes(sig, sigLen)
		for _, ev := range p.signs {
			same := e.termsEq(sb, e.viewBytes(ev.sig, sigLen))
			if ev.key == name {
				e.assertPC(tb.Eq(e.termsEq(d, ev.digest), same)) // deterministic and injective per key
			} else {
				e.assertPC(tb.BNot(same)) // key separation
			}
		}
		p.signs = append(p.signs, signEvent{name, d, sig})
		e.advanceClock() // signing takes time (tokens, HSMs): the clock may have moved on
		return Tuple{sig, Iface{}}
	})
	reg(vsymPath+".Cert", func(fr *frame, a []Value) Value {
		e := fr.e
		p := e.path
		sg := a[0].(Iface)
		name := e.signerName(sg.V)
		T := e.namedType("crypto/x509", "Certificate")
		v := e.zero(T)
		cp := &v
		n := p.certRawLen
		if n == 0 {
			n = 5
		}
		raw := e.symBytes("cert."+name+".raw", e.tb.I64(int64(n)), uint64(n))
		p.inputs = p.inputs[:len(p.inputs)-1] // natively a real certificate
		e.setField(cp, T, "Raw", raw)
		// issuer: the name of the one test CA, "CN=<7 letters>" (as UTF8String), letters symbolic and shared by all
		// certificates of the path; the native vsym.Cert creates its CA with the same name (input
		// "ca.cn"), so the issuer bytes are the same in the model and in native replays
		if p.caCN.Obj == nil {
			p.caCN = e.symBytes("ca.cn", e.tb.I64(7), 7)
			for i := int64(0); i < 7; i++ {
				c := e.sliceAt(p.caCN, e.tb.I64(i))
				up := e.tb.And(e.tb.Ule(e.tb.Const(8, 'A'), c), e.tb.Ule(c, e.tb.Const(8, 'Z')))
				lo := e.tb.And(e.tb.Ule(e.tb.Const(8, 'a'), c), e.tb.Ule(c, e.tb.Const(8, 'z')))
				e.Assume(e.tb.Or(up, lo))
			}
		}
		var it []*Term
		for _, b := range []byte{0x30, 0x12, 0x31, 0x10, 0x30, 0x0e, 0x06, 0x03, 0x55, 0x04, 0x03, 0x0c, 0x07} {
			it = append(it, e.tb.Const(8, uint64(b)))
		}
		for i := int64(0); i < 7; i++ {
			it = append(it, e.sliceAt(p.caCN, e.tb.I64(i)))
		}
		iss := e.termsSlice(it, "issuer")
		e.setField(cp, T, "RawIssuer", iss)
		// the subject is a different name (certificates are issued by a CA; natively too)
		sb := e.symBytes("cert."+name+".subject", e.tb.I64(1), 1)
		p.inputs = p.inputs[:len(p.inputs)-1]
		e.setField(cp, T, "RawSubject", e.termsSlice([]*Term{e.tb.Const(8, 0x30), e.tb.Const(8, 1), e.sliceAt(sb, e.tb.I64(0))}, "subject"))
		ser := a[1].(SliceVal)
		if !ser.Len.IsConst() {
			e.unsupported("Cert: serial length must be concrete")
		}
		e.setField(cp, T, "SerialNumber", e.newBig(e.viewBytes(ser, int(ser.Len.C))))
		e.setField(cp, T, "PublicKeyAlgorithm", e.tb.I64(1))
		// assumption: certificates made by vsym.Cert for different keys differ in issuer or serial
		// (what a CA guarantees); "same issuer and serial, other key" is introduced with CertSameID
		for _, other := range p.certs {
			if p.certKey[other] == name {
				continue
			}
			oi := (*e.fieldPtr(other, T, "RawIssuer")).(SliceVal)
			_, om, _ := e.bigParts(*e.fieldPtr(other, T, "SerialNumber"))
			same := e.bytesEq(oi, iss)
			ob := e.bigMagBytes(om)
			mb := e.viewBytes(ser, int(ser.Len.C))
			if len(ob) == len(mb) {
				same = e.tb.And(same, e.termsEq(ob, mb))
			} else {
				same = e.tb.F
			}
			e.Assume(e.tb.BNot(same))
		}
		if p.certKey == nil {
			p.certKey = map[*Value]string{}
		}
		p.certKey[cp] = name
		p.certs = append(p.certs, cp)
		return cp
	})
	reg("(*crypto/x509.Certificate).CheckSignature", func(fr *frame, a []Value) Value {
		e := fr.e
		tb := e.tb
		p := e.path
		cp, ok := a[0].(*Value)
		if !ok || cp == nil {
			e.throw("nil pointer dereference (CheckSignature on nil certificate)", fr.callPos)
		}
		key, ok := p.certKey[cp]
		if !ok {
			e.unsupported("CheckSignature on a certificate that was not made by vsym.Cert")
		}
		algo := a[1].(*Term)
		if !algo.IsConst() || algo.C != 4 { // x509.SHA256WithRSA
			return e.newError("x509: unsupported algorithm (model: only SHA256WithRSA)")
		}
		data, sig := a[2].(SliceVal), a[3].(SliceVal)
		if data.Obj == nil {
			data = e.concSlice(nil)
		}
		d := e.hashOf(e.freeze(data, "signed"))
		valid := tb.F
		if sig.Obj != nil {
			okLen := tb.Eq(sig.Len, tb.I64(sigLen))
			for _, ev := range p.signs {
				if ev.key != key {
					continue
				}
				if sig.Len.IsConst() && sig.Len.C != sigLen {
					continue
				}
				s := SliceVal{sig.Obj, sig.Off, tb.I64(sigLen), tb.I64(sigLen)}
				valid = tb.Or(valid, tb.And(okLen, e.termsEq(d, ev.digest), e.termsEq(e.viewBytes(s, sigLen), e.viewBytes(ev.sig, sigLen))))
			}
		}
		if e.Decide(valid) {
			return Iface{}
		}
		return e.newError("crypto/rsa: verification error")
	})
	reg("crypto/x509.ParseCertificates", func(fr *frame, a []Value) Value {
		e := fr.e
		p := e.path
		raw := a[0].(SliceVal)
		// the certificates made by vsym.Cert parse to themselves; anything else is an opaque parse failure or success
		var out []Value
		for _, cp := range p.certs {
			T := e.namedType("crypto/x509", "Certificate")
			r := (*e.fieldPtr(cp, T, "Raw")).(SliceVal)
			if raw.Obj != nil && r.Len.IsConst() && e.Decide(e.bytesEq(r, raw)) {
				out = append(out, cp)
				return Tuple{out, Iface{}}
			}
		}
		if b, ok := e.concBytes(raw); ok {
			// concrete input: ask the real parser (the engine is a Go program), keep the results opaque
			cs, err := x509.ParseCertificates(b)
			if err != nil {
				return Tuple{[]Value(nil), e.newError("x509: " + err.Error())}
			}
			T := e.namedType("crypto/x509", "Certificate")
			for _, c := range cs {
				v := e.zero(T)
				cp := &v
				e.setField(cp, T, "Raw", e.concSlice(c.Raw))
				e.setField(cp, T, "RawIssuer", e.concSlice(c.RawIssuer))
				out = append(out, cp)
			}
			if out == nil {
				out = []Value{}
			}
			return Tuple{out, Iface{}}
		}
		p.uniq++
		okv := e.symScalar(fmt.Sprintf("x509.parse.ok#%d", p.uniq), 8)
		p.inputs = p.inputs[:len(p.inputs)-1]
		if e.Decide(e.tb.Eq(okv, e.tb.Const(8, 1))) {
			return Tuple{[]Value{}, Iface{}}
		}
		return Tuple{[]Value(nil), e.newError("x509: malformed certificate")}
	})

	// ---- math/big ----
	reg("(*math/big.Int).Sign", func(fr *frame, a []Value) Value {
		e := fr.e
		neg, mag, _ := e.bigParts(a[0])
		if len(mag) == 0 {
			return e.tb.I64(0)
		}
		return e.tb.Ite(neg, e.tb.I64(-1), e.tb.I64(1))
	})
	reg("(*math/big.Int).Bytes", func(fr *frame, a []Value) Value {
		e := fr.e
		_, mag, _ := e.bigParts(a[0])
		return e.termsSlice(e.bigMagBytes(mag), "big.Bytes")
	})
	reg("(*math/big.Int).SetBytes", func(fr *frame, a []Value) Value {
		e := fr.e
		_, _, slot := e.bigParts(a[0])
		b := a[1].(SliceVal)
		n := 0
		if b.Obj != nil {
			if !b.Len.IsConst() {
				b.Len = e.tb.Const(64, e.concretize(b.Len, 4096))
			}
			n = int(b.Len.C)
		}
		bs := e.viewBytes(b, n)
		for len(bs) > 0 && e.Decide(e.tb.Eq(bs[0], e.tb.Const(8, 0))) {
			bs = bs[1:]
		}
		e.bigSet(slot, e.tb.F, bs)
		return a[0]
	})
	reg("(*math/big.Int).Cmp", func(fr *frame, a []Value) Value {
		e := fr.e
		tb := e.tb
		xn, xm, _ := e.bigParts(a[0])
		yn, ym, _ := e.bigParts(a[1])
		if !xn.IsFalse() || !yn.IsFalse() {
			if len(xm) > 0 && len(ym) > 0 && (e.Decide(xn) || e.Decide(yn)) {
				e.unsupported("big.Int.Cmp on negative values")
			}
		}
		if len(xm) != len(ym) {
			if len(xm) < len(ym) {
				return tb.I64(-1)
			}
			return tb.I64(1)
		}
		r := tb.I64(0)
		xb, yb := e.bigMagBytes(xm), e.bigMagBytes(ym)
		for i := len(xb) - 1; i >= 0; i-- {
			r = tb.Ite(tb.Ult(xb[i], yb[i]), tb.I64(-1), tb.Ite(tb.Ult(yb[i], xb[i]), tb.I64(1), r))
		}
		return r
	})
	reg("math/big.NewInt", func(fr *frame, a []Value) Value {
		e := fr.e
		x := a[0].(*Term)
		if !x.IsConst() || x.SInt() < 0 {
			e.unsupported("big.NewInt of a symbolic or negative value")
		}
		var bs []*Term
		for v := x.C; v > 0; v >>= 8 {
			bs = append([]*Term{e.tb.Const(8, v&0xff)}, bs...)
		}
		return e.newBig(bs)
	})
	reg(vsymPath+".CertSameID", func(fr *frame, a []Value) Value {
		// a certificate with the issuer and serial of `like` but the key of `signer`
		e := fr.e
		p := e.path
		name := e.signerName(a[0].(Iface).V)
		like := a[1].(*Value)
		T := e.namedType("crypto/x509", "Certificate")
		v := e.copyVal(*like)
		cp := &v
		raw := e.symBytes("cert."+name+".raw", e.tb.I64(5), 5)
		p.inputs = p.inputs[:len(p.inputs)-1]
		e.setField(cp, T, "Raw", raw)
		p.certKey[cp] = name
		p.certs = append(p.certs, cp)
		return cp
	})
	reg(vsymPath+".CertRawLen", func(fr *frame, a []Value) Value { fr.e.path.certRawLen = int(concInt(a[0])); return nil })
	_ = strings.TrimSpace
}
