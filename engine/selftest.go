package main

import "fmt"

func cmdSelftest(args []string) int {
	fmt.Println("selftest: see `vcheck run VST_*` harnesses")
	return 0
}
