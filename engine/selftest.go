package main

import (
	"fmt"
	"path/filepath"
	"runtime"
)

// cmdSelftest runs the VST_* programs through the executor and natively.
func cmdSelftest(args []string) int {
	ld, err := Load(nil)
	if err != nil {
		fmt.Println("selftest: load failed:", err)
		return 1
	}
	bad := 0
	for _, name := range []string{"VST_Semantics", "VST_Symbolic"} {
		hs, err := runHarness(ld, "selftest", HarnessSpec{Name: name, NeedReach: []string{"end"}}, &KnownFindings{}, runtime.NumCPU())
		if err != nil {
			fmt.Println("selftest:", name, "engine error:", err)
			bad++
			continue
		}
		if len(hs.Findings) > 0 || hs.Reached["end"] == 0 || hs.Outcomes["return"] != hs.Paths {
			fmt.Printf("selftest: %s FAILED in the executor: outcomes=%v findings=%d\n", name, hs.Outcomes, len(hs.Findings))
			for _, f := range hs.Findings {
				fmt.Println("   ", f.Site, f.Msg)
			}
			bad++
			continue
		}
		okn := 0
		for i, w := range hs.Witnesses {
			f := &Finding{Harness: name, Site: "witness", Model: w.Witness}
			rr := replayP(ld, hs.fn, f, filepath.Join(ld.verif, "replays", "selftest", fmt.Sprintf("%s-%d", name, i+1)), nil)
			if rr.Outcome != "clean" {
				fmt.Printf("selftest: %s native run disagrees: %s\n", name, rr.Outcome)
				bad++
			} else {
				okn++
			}
		}
		fmt.Printf("selftest: %s ok (%d paths, %d native witnesses agree)\n", name, hs.Paths, okn)
	}
	if bad > 0 {
		return 1
	}
	return 0
}
