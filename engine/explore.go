package main

// Path exploration: decision-prefix re-execution, one solver per worker.

import (
	"fmt"
	"go/token"
	"os"
	"sort"
	"strings"
	"sync"
	"time"

	"golang.org/x/tools/go/ssa"
)

var debugDecide = os.Getenv("SYMGO_DECIDE") != ""

type dec struct {
	B     bool
	IsVal bool
	V     uint64
}

type symInput struct {
	Name string
	Kind string // "scalar" | "bytes"
	T    *Term  // scalar term or array var
	Len  *Term  // bytes: length term
	Max  uint64
	W    int
	Vars []*Term // small inputs: one variable per byte
}

type tagRec struct {
	Name string
	Cond *Term
}

type obsRec struct {
	Name string
	Vals []*Term // scalar: one term; bytes: len followed by bytes (only if short)
}

// candidate is a potential violation found on a path.
type candidate struct {
	Site  string // "assert:<label>", "panic:<fn>:<class>", "exit:<fn>", "alloc:<fn>", "nonterm"
	Cond  *Term  // extra condition beyond the path condition (nil = none)
	Msg   string
	Where string // source position, informational
}

type pathState struct {
	caCN        SliceVal // common name of the test CA (crypto2.go, vsym.Cert)
	hashInj     []*Term  // indices at which collision resistance is instantiated (vsym.HashInjectiveAt)
	prefix      []dec
	pos         int
	forks       [][]dec
	inputs      []symInput
	names       map[string]int
	tags        []tagRec
	obs         []obsRec
	reached     []string
	cands       []candidate
	allocLimit  *Term
	mustTerm    bool
	allowPanic  bool
	allowExit   bool
	npc         int
	unsatMemo   map[int]bool
	unknowns    int
	writeMark   int
	roots       []Value
	hashes      []*hashApp
	hstates     map[*Value]*hashState
	pools       map[*Value][]Value // sync.Pool contents (intr_sync.go)
	keyKind     map[*ByteObj]int64 // DER objects made by vsym.KeyPEM -> key kind
	proveMemo   map[int]bool
	pemLen      int
	tableArr    map[*bnode]*Term
	certRawLen  int
	parsedTimes map[int]parsedTime
	signs       []signEvent
	certKey     map[*Value]string
	certs       []*Value
	faultsOn    bool
	nfault      int
	localLoc    *Value
	tzOff       *Term
	now         *Term
	now0        *Term
	preSlots    map[*Value]bool
	preObjs     map[*ByteObj]bool
	preMaps     map[*MapVal]bool
	writeSet    int
	pemOf       map[*ByteObj]SliceVal
	uniq        int
	facts       factTab
	binds       *bindTab
	trueMemo    map[int]bool
	concSplit   uint64 // total symbolic input bytes + slack: allocation sizes up to this are case-split
}

type Finding struct {
	Harness string            `json:"harness"`
	Site    string            `json:"site"`
	Msg     string            `json:"msg"`
	Where   string            `json:"where"`
	Tags    []string          `json:"tags"`
	Model   *ModelJSON        `json:"model"`
	Known   string            `json:"known,omitempty"` // matching known-finding tag
	Replay  *ReplayResult     `json:"replay,omitempty"`
	Prefix  string            `json:"prefix"`
	Extra   map[string]string `json:"extra,omitempty"`
}

type ModelJSON struct {
	Scalars map[string]uint64 `json:"scalars"`
	Bytes   map[string]string `json:"bytes"` // hex
}

type PathResult struct {
	Outcome   string
	Msg       string
	Decisions int
	Reached   []string
	Findings  []*Finding
	Forks     [][]dec
	Unknowns  int
	Witness   *ModelJSON
	Partial   *ModelJSON // inputs reaching the point where the executor gave up on this path
	Obs       map[string]string
	Steps     int
}

// ---- decisions ----

func (e *Eng) assertPC(c *Term) {
	e.path.npc++
	e.path.facts.learn(c)
	e.path.binds.learn(c, e.tb)
	e.path.trueMemo[c.ID] = true
	e.solver.Assert(c)
}

func (e *Eng) Decide(c *Term) bool {
	if c.IsTrue() {
		return true
	}
	if c.IsFalse() {
		return false
	}
	if e.initMode > 0 || e.path == nil {
		e.unsupported("symbolic decision outside a path")
	}
	if e.inModel {
		panic("Decide during model extraction")
	}
	p := e.path
	tb := e.tb
	if p.trueMemo[c.ID] {
		return true
	}
	c = p.binds.rewrite(c, tb)
	if c.IsTrue() {
		return true
	}
	if c.IsFalse() {
		return false
	}
	if v, ok := p.facts.decide(c); ok {
		return v
	}
	e.stats.Decisions++
	if p.pos < len(p.prefix) {
		d := p.prefix[p.pos]
		if d.IsVal {
			panic(fmt.Sprintf("decision prefix mismatch at %d (value where bool expected)", p.pos))
		}
		p.pos++
		if d.B {
			e.assertPC(c)
		} else {
			e.assertPC(tb.BNot(c))
		}
		return d.B
	}
	if len(p.prefix) >= e.cfg.MaxDecisions {
		panic(pathEnd{kind: endUnwind, msg: fmt.Sprintf("more than %d symbolic decisions on one path", e.cfg.MaxDecisions)})
	}
	nc := tb.BNot(c)
	var d bool
	if debugDecide {
		t0 := time.Now()
		defer func() {
			fmt.Fprintf(os.Stderr, "DECIDE #%d %v %.3fs %s\n", len(p.prefix), d, time.Since(t0).Seconds(), c.strDepth(4))
		}()
	}
	rT := Unsat
	if !p.unsatMemo[c.ID] {
		rT, _ = e.solver.Check([]*Term{c}, nil)
	}
	if rT == Unsat {
		p.unsatMemo[c.ID] = true
		d = false
	} else {
		rF := Unsat
		if !p.unsatMemo[nc.ID] {
			rF, _ = e.solver.Check([]*Term{nc}, nil)
		}
		if rF == Unsat {
			p.unsatMemo[nc.ID] = true
			d = true
		} else {
			d = true
			other := append(append([]dec(nil), p.prefix[:p.pos]...), dec{B: false})
			p.forks = append(p.forks, other)
			e.stats.Forks++
			if rF == Unknown {
				p.unknowns++
			}
		}
		if rT == Unknown {
			p.unknowns++
		}
	}
	p.prefix = append(p.prefix, dec{B: d})
	p.pos++
	if d {
		e.assertPC(c)
	} else {
		e.assertPC(nc)
	}
	return d
}

// anyValue returns some value of t consistent with the path condition (recorded for replay of the prefix).
func (e *Eng) anyValue(t *Term) (uint64, bool) {
	p := e.path
	if p.pos < len(p.prefix) {
		d := p.prefix[p.pos]
		if !d.IsVal {
			panic(fmt.Sprintf("decision prefix mismatch at %d (bool where value expected)", p.pos))
		}
		p.pos++
		return d.V, true
	}
	r, vals := e.solver.Check(nil, []*Term{t})
	if r != Sat {
		return 0, false
	}
	p.prefix = append(p.prefix, dec{IsVal: true, V: vals[0]})
	p.pos++
	return vals[0], true
}

// Assume adds c to the path condition; the path ends if that is infeasible.
func (e *Eng) Assume(c *Term) {
	if c.IsTrue() {
		return
	}
	if c.IsFalse() {
		panic(pathEnd{kind: endAssumeFalse})
	}
	p := e.path
	c = p.binds.rewrite(c, e.tb)
	if c.IsTrue() {
		return
	}
	if c.IsFalse() {
		panic(pathEnd{kind: endAssumeFalse})
	}
	if p.pos < len(p.prefix) || true {
		// feasibility must be re-established even on replayed prefixes only if this
		// assumption lies beyond the prefix; inside the prefix it was feasible before.
	}
	if p.pos >= len(p.prefix) {
		r, _ := e.solver.Check([]*Term{c}, nil)
		if r == Unsat {
			panic(pathEnd{kind: endAssumeFalse})
		}
		if r == Unknown {
			p.unknowns++
		}
	}
	e.assertPC(c)
}

// ---- running one path ----

func prefixString(p []dec) string {
	var sb strings.Builder
	for _, d := range p {
		if d.IsVal {
			fmt.Fprintf(&sb, "[%d]", d.V)
		} else if d.B {
			sb.WriteByte('1')
		} else {
			sb.WriteByte('0')
		}
	}
	return sb.String()
}

func (e *Eng) runPath(fn *ssa.Function, prefix []dec, hs *HarnessRun) (res *PathResult) {
	e.solver.NewPath()
	e.readMemo = map[readKey]*Term{}
	e.refineMemo = map[int]int{}
	e.steps = 0
	e.depth = 0
	mark := len(e.undo)
	p := &pathState{prefix: append([]dec(nil), prefix...), names: map[string]int{}, unsatMemo: map[int]bool{}, facts: factTab{}, trueMemo: map[int]bool{}, binds: newBindTab()}
	e.path = p
	e.curHS = hs
	e.pathFindings = nil
	res = &PathResult{}
	e.stats.Paths++
	defer func() {
		e.rollback(mark)
		e.path = nil
	}()
	func() {
		defer func() {
			r := recover()
			if r == nil {
				res.Outcome = "return"
				return
			}
			switch r := r.(type) {
			case pathEnd:
				res.Outcome = endNames[r.kind]
				res.Msg = r.msg
				switch r.kind {
				case endExit:
					if !p.allowExit {
						p.cands = append(p.cands, candidate{Site: "exit:" + r.site, Msg: r.msg})
					}
				case endStop:
					if r.site != "" {
						p.cands = append(p.cands, candidate{Site: r.site, Msg: r.msg})
					}
				case endUnwind:
					if p.mustTerm {
						p.cands = append(p.cands, candidate{Site: "nonterm", Msg: r.msg})
					}
				case endUnsupported:
					e.stats.Unsupported[r.msg]++
				}
			case goPanic:
				res.Outcome = "panic"
				res.Msg = r.msg + " at " + r.site
				if !p.allowPanic {
					p.cands = append(p.cands, candidate{Site: "panic:" + r.site, Msg: r.msg})
				}
			default:
				panic(r)
			}
		}()
		e.callSSA(nil, token.NoPos, fn, nil, nil)
	}()
	res.Decisions = len(p.prefix)
	res.Reached = p.reached
	res.Forks = p.forks
	res.Unknowns = p.unknowns
	res.Steps = e.steps
	// violation candidates: extract models, match known findings
	res.Findings = append(res.Findings, e.pathFindings...)
	e.inModel = true
	for _, c := range p.cands {
		res.Findings = append(res.Findings, e.resolveCandidate(c, hs)...)
	}
	if hs.wantWitness(res) {
		if m, tags, ok := e.extractModel(nil); ok {
			res.Witness = m
			_ = tags
			res.Obs = e.evalObs()
		}
	} else if hs.wantPartial(res) {
		// the executor could not follow this path to its end: keep inputs that reach this point, they
		// are run natively (concrete fallback, reported as such)
		if m, _, ok := e.extractModel(nil); ok {
			res.Partial = m
		}
	}
	e.inModel = false
	return res
}

// extractModel solves PC ∧ extra and returns the input assignment and the names of true tags.
func (e *Eng) extractModel(extra []*Term) (*ModelJSON, []string, bool) {
	p := e.path
	tb := e.tb
	// stage 1: scalars, lengths, tags; prefer small lengths so that replay files stay small
	var want []*Term
	for _, in := range p.inputs {
		if in.Kind == "scalar" {
			want = append(want, in.T)
		} else {
			want = append(want, in.Len)
		}
	}
	for _, t := range p.tags {
		want = append(want, t.Cond)
	}
	var caps []*Term
	for _, in := range p.inputs {
		if in.Kind == "bytes" && in.Max > 4096 {
			caps = append(caps, tb.Ule(in.Len, tb.I64(4096)))
		}
	}
	var r Result
	var vals []uint64
	ex := append([]*Term(nil), extra...)
	if len(caps) > 0 {
		r, vals = e.solver.Check(append(append([]*Term(nil), ex...), caps...), want)
		if r == Sat {
			ex = append(ex, caps...)
		}
	}
	if r != Sat || len(caps) == 0 {
		r, vals = e.solver.Check(ex, want)
	}
	e.lastModelResult = r
	if r != Sat {
		return nil, nil, false
	}
	m := &ModelJSON{Scalars: map[string]uint64{}, Bytes: map[string]string{}}
	pin := append([]*Term(nil), ex...)
	var want2 []*Term
	type span struct {
		name string
		n    int
	}
	var spans []span
	for i, in := range p.inputs {
		if in.Kind == "scalar" {
			m.Scalars[in.Name] = vals[i]
			pin = append(pin, tb.Eq(in.T, tb.Const(in.T.W, vals[i])))
		} else {
			n := vals[i]
			if n > 1<<20 {
				n = 1 << 20
			}
			pin = append(pin, tb.Eq(in.Len, tb.Const(64, vals[i])))
			spans = append(spans, span{in.Name, int(n)})
			for k := uint64(0); k < n; k++ {
				if in.Vars != nil {
					if k < uint64(len(in.Vars)) {
						want2 = append(want2, in.Vars[k])
					} else {
						want2 = append(want2, tb.Const(8, 0))
					}
				} else {
					want2 = append(want2, tb.Select(in.T, tb.Const(64, k)))
				}
			}
		}
	}
	var tags []string
	for i, t := range p.tags {
		if vals[len(p.inputs)+i] != 0 {
			tags = append(tags, t.Name)
		}
	}
	if len(want2) > 0 {
		r2, v2 := e.solver.Check(pin, want2)
		if r2 != Sat {
			return nil, nil, false
		}
		off := 0
		for _, s := range spans {
			var sb strings.Builder
			for k := 0; k < s.n; k++ {
				fmt.Fprintf(&sb, "%02x", v2[off+k])
			}
			off += s.n
			m.Bytes[s.name] = sb.String()
		}
	} else {
		for _, s := range spans {
			m.Bytes[s.name] = ""
		}
	}
	return m, tags, true
}

func (e *Eng) evalObs() map[string]string { return nil }

func (e *Eng) resolveCandidate(c candidate, hs *HarnessRun) []*Finding {
	p := e.path
	var out []*Finding
	var extra []*Term
	if c.Cond != nil {
		extra = append(extra, c.Cond)
	}
	for iter := 0; iter <= len(p.tags)+1; iter++ {
		m, tags, ok := e.extractModel(extra)
		if !ok {
			if iter == 0 {
				// no input found for this candidate: the path was entered on an undecided branch and
				// is infeasible (unsat) or stays undecided (unknown); counted, never silently dropped
				why := "path infeasible (entered on an undecided branch)"
				if e.lastModelResult == Unknown {
					why = "solver unknown: undecided"
				}
				e.stats.Unsupported["candidate "+strings.SplitN(c.Site, ":", 2)[0]+" without a model: "+why]++
			}
			break
		}
		f := &Finding{Harness: hs.Name, Site: c.Site, Msg: c.Msg, Where: c.Where, Tags: tags, Model: m, Prefix: prefixString(p.prefix)}
		kf := hs.known.match(hs.Prop, hs.Name, c.Site, tags)
		if kf == "" {
			out = append(out, f)
			break
		}
		f.Known = kf
		out = append(out, f)
		// exclude this class and look for a different violation of the same assertion
		var excl *Term
		for _, t := range p.tags {
			if t.Name == kf {
				excl = e.tb.BNot(t.Cond)
			}
		}
		if excl == nil {
			break // site-only known finding ("*"): the whole site is covered
		}
		extra = append(extra, excl)
	}
	return out
}

// ---- harness-level scheduling ----

type HarnessSpec struct {
	Name         string
	MaxPaths     int
	MaxDecisions int
	MaxSteps     int
	TimeoutSec   int
	Refine       bool
	PreferCVC5   bool
	IncrMs       int
	OneShotSec   int
	NeedReach    []string       // labels that some path must reach (vacuity guard)
	Params       map[string]int // harness package variables set before the run (bounds)
	OpaqueFmt    bool           // fmt.Sprintf returns a placeholder (harness does not inspect formatted text)
	ConcAlloc    bool           // case-split allocation sizes up to (symbolic input bytes + 64)
}

type HarnessRun struct {
	HarnessSpec
	Prop  string
	known *KnownFindings
	fn    *ssa.Function

	mu        sync.Mutex
	queue     [][]dec
	busy      int
	Paths     int
	Outcomes  map[string]int
	Reached   map[string]int
	Findings  []*Finding
	Decisions int
	Unknowns  int
	MaxDepth  int
	Steps     int64
	Witnesses []*PathResult
	Truncated string
	Wall      time.Duration
	Solver    SolverStats
	Funcs     map[string]int
	Intr      map[string]int
	Unsupp    map[string]int
	Msgs      map[string]int
	nWitness  int
	nPartial  int
	Partials  []*PathResult // paths the executor could not finish (unsupported construct), with inputs reaching that point
	WitnessOK int
}

func (hs *HarnessRun) wantWitness(r *PathResult) bool {
	hs.mu.Lock()
	defer hs.mu.Unlock()
	if r.Outcome != "return" || hs.nWitness >= 3 {
		return false
	}
	hs.nWitness++
	return true
}

func (hs *HarnessRun) wantPartial(r *PathResult) bool {
	hs.mu.Lock()
	defer hs.mu.Unlock()
	if r.Outcome != "unsupported" || hs.nPartial >= 2 {
		return false
	}
	hs.nPartial++
	return true
}

func newEng(ld *Loaded, spec HarnessSpec, scratch string) *Eng {
	tb := NewTB()
	e := &Eng{prog: ld.prog, ld: ld, tb: tb, globals: map[*ssa.Global]*Value{}, pkgInit: map[*ssa.Package]int{}}
	e.solver = NewSolver(tb, scratch)
	e.solver.PreferCVC5 = spec.PreferCVC5
	if spec.IncrMs > 0 {
		e.solver.IncrMs = spec.IncrMs
	}
	if spec.OneShotSec > 0 {
		e.solver.OneShotSec = spec.OneShotSec
	}
	e.cfg = Config{MaxDecisions: 600, MaxSteps: 20_000_000, RefineReads: spec.Refine, Trace: os.Getenv("SYMGO_TRACE") != ""}
	if spec.MaxDecisions > 0 {
		e.cfg.MaxDecisions = spec.MaxDecisions
	}
	if spec.MaxSteps > 0 {
		e.cfg.MaxSteps = spec.MaxSteps
	}
	e.stats.Funcs = map[string]int{}
	e.stats.Intrinsics = map[string]int{}
	e.stats.Unsupported = map[string]int{}
	if rt := ld.prog.ImportedPackage("runtime"); rt != nil {
		e.runtimeErrT = rt.Type("errorString").Object().Type()
	}
	e.intr = intrinsics
	e.readMemo = map[readKey]*Term{}
	e.refineMemo = map[int]int{}
	return e
}

func runHarness(ld *Loaded, prop string, spec HarnessSpec, known *KnownFindings, workers int) (*HarnessRun, error) {
	fn := ld.findHarness(spec.Name)
	if fn == nil {
		return nil, fmt.Errorf("harness %s not found", spec.Name)
	}
	hs := &HarnessRun{HarnessSpec: spec, Prop: prop, known: known, fn: fn, Outcomes: map[string]int{}, Reached: map[string]int{},
		Funcs: map[string]int{}, Intr: map[string]int{}, Unsupp: map[string]int{}, Msgs: map[string]int{}}
	hs.Solver.OneShotWins = map[string]int{}
	hs.queue = [][]dec{nil}
	if hs.MaxPaths == 0 {
		hs.MaxPaths = 20000
	}
	if hs.TimeoutSec == 0 {
		hs.TimeoutSec = 600
	}
	t0 := time.Now()
	deadline := t0.Add(time.Duration(hs.TimeoutSec) * time.Second)
	scratch, err := os.MkdirTemp("", "symgo")
	if err != nil {
		return nil, err
	}
	defer os.RemoveAll(scratch)
	var wg sync.WaitGroup
	cond := sync.NewCond(&hs.mu)
	var engErr error
	for w := 0; w < workers; w++ {
		wg.Add(1)
		go func(w int) {
			defer wg.Done()
			var e *Eng
			defer func() {
				if e != nil {
					e.solver.Close()
					hs.mu.Lock()
					hs.mergeStats(e)
					hs.mu.Unlock()
				}
			}()
			for {
				hs.mu.Lock()
				for len(hs.queue) == 0 && hs.busy > 0 && hs.Truncated == "" {
					cond.Wait()
				}
				if len(hs.queue) == 0 || hs.Truncated != "" || engErr != nil {
					hs.mu.Unlock()
					cond.Broadcast()
					return
				}
				if hs.Paths >= hs.MaxPaths {
					hs.Truncated = fmt.Sprintf("path limit %d reached with %d prefixes pending", hs.MaxPaths, len(hs.queue))
					hs.mu.Unlock()
					cond.Broadcast()
					return
				}
				if time.Now().After(deadline) {
					hs.Truncated = fmt.Sprintf("time limit %ds reached with %d prefixes pending", hs.TimeoutSec, len(hs.queue))
					hs.mu.Unlock()
					cond.Broadcast()
					return
				}
				prefix := hs.queue[len(hs.queue)-1]
				hs.queue = hs.queue[:len(hs.queue)-1]
				hs.busy++
				hs.Paths++
				hs.mu.Unlock()

				var res *PathResult
				func() {
					defer func() {
						if r := recover(); r != nil {
							hs.mu.Lock()
							if engErr == nil {
								engErr = fmt.Errorf("engine failure on path %s of %s: %v\n%s", prefixString(prefix), spec.Name, r, stack())
							}
							hs.mu.Unlock()
						}
					}()
					if e == nil {
						e = newEng(ld, spec, scratch)
						e.initPkg(fn.Pkg)
						for k, v := range spec.Params {
							g, ok := fn.Pkg.Members[k].(*ssa.Global)
							if !ok {
								panic("harness parameter " + k + " is not a package variable")
							}
							*e.global(g) = e.tb.I64(int64(v))
						}
					}
					res = e.runPath(fn, prefix, hs)
				}()
				hs.mu.Lock()
				hs.busy--
				if res != nil {
					hs.record(res)
					hs.queue = append(hs.queue, res.Forks...)
				}
				hs.mu.Unlock()
				cond.Broadcast()
				// keep the term table from growing without bound
				if e != nil && e.tb.nextID > 3_000_000 {
					e.solver.Close()
					hs.mu.Lock()
					hs.mergeStats(e)
					hs.mu.Unlock()
					e = nil
				}
			}
		}(w)
	}
	wg.Wait()
	hs.Wall = time.Since(t0)
	if engErr != nil {
		return hs, engErr
	}
	return hs, nil
}

func (hs *HarnessRun) record(r *PathResult) {
	hs.Outcomes[r.Outcome]++
	if r.Outcome != "return" && r.Msg != "" {
		m := r.Outcome + ": " + r.Msg
		if len(m) > 200 {
			m = m[:200]
		}
		hs.Msgs[m]++
	}
	for _, l := range r.Reached {
		hs.Reached[l]++
	}
	hs.Findings = append(hs.Findings, r.Findings...)
	hs.Decisions += r.Decisions
	hs.Unknowns += r.Unknowns
	hs.Steps += int64(r.Steps)
	if r.Decisions > hs.MaxDepth {
		hs.MaxDepth = r.Decisions
	}
	if r.Witness != nil && len(hs.Witnesses) < 3 {
		hs.Witnesses = append(hs.Witnesses, r)
	}
	if r.Partial != nil && len(hs.Partials) < 2 {
		hs.Partials = append(hs.Partials, r)
	}
}

func (hs *HarnessRun) mergeStats(e *Eng) {
	s := e.solver.Stats
	hs.Solver.Sat += s.Sat
	hs.Solver.Unsat += s.Unsat
	hs.Solver.Unknown += s.Unknown
	hs.Solver.Errors += s.Errors
	hs.Solver.OneShot += s.OneShot
	hs.Solver.Restarts += s.Restarts
	hs.Solver.TimeIncr += s.TimeIncr
	hs.Solver.TimeOneShot += s.TimeOneShot
	if s.MaxQuery > hs.Solver.MaxQuery {
		hs.Solver.MaxQuery = s.MaxQuery
	}
	for k, v := range s.OneShotWins {
		hs.Solver.OneShotWins[k] += v
	}
	for k, v := range e.stats.Funcs {
		hs.Funcs[k] += v
	}
	for k, v := range e.stats.Intrinsics {
		hs.Intr[k] += v
	}
	for k, v := range e.stats.Unsupported {
		hs.Unsupp[k] += v
	}
}

func sortedKeys(m map[string]int) []string {
	var ks []string
	for k := range m {
		ks = append(ks, k)
	}
	sort.Strings(ks)
	return ks
}
