package main

// Cheap interval facts about terms compared with constants, collected from the
// path condition.  They answer many bounds-check decisions without a solver
// call; whatever they decide is implied by the asserted path condition.

type ival struct {
	ulo, uhi uint64
	slo, shi int64
}

type factTab map[int]*ival

func fullIval(w int) *ival {
	m := mask(w)
	return &ival{0, m, sx(uint64(1)<<uint(w-1), w), int64(m >> 1)}
}

// cmpPattern describes c as "x in [lo,hi]" (unsigned or signed order).
func cmpPattern(c *Term) (x *Term, lo, hi uint64, signed, ok bool) {
	neg := false
	if c.Op == OpBNot {
		neg = true
		c = c.A[0]
	}
	var a, b *Term
	switch c.Op {
	case OpUlt, OpUle, OpSlt, OpSle, OpEq:
		a, b = c.A[0], c.A[1]
	default:
		return
	}
	if a.W == 0 || a.W > 64 {
		return
	}
	w := a.W
	m := mask(w)
	signed = c.Op == OpSlt || c.Op == OpSle
	smin := uint64(1) << uint(w-1) // as bit pattern
	smax := m >> 1
	// bounds expressed as bit patterns in the respective order
	min, max := uint64(0), m
	if signed {
		min, max = smin, smax
	}
	less := func(p, q uint64) bool {
		if signed {
			return sx(p, w) < sx(q, w)
		}
		return p < q
	}
	_ = less
	switch {
	case c.Op == OpEq:
		if b.IsConst() && !a.IsConst() {
			x, lo, hi = a, b.C, b.C
		} else if a.IsConst() && !b.IsConst() {
			x, lo, hi = b, a.C, a.C
		} else {
			return
		}
		if neg {
			return nil, 0, 0, false, false
		}
		return x, lo, hi, false, true
	case a.IsConst() && !b.IsConst():
		x = b
		if c.Op == OpUlt || c.Op == OpSlt { // C < x
			if a.C == max {
				return nil, 0, 0, false, false
			}
			lo, hi = (a.C+1)&m, max
		} else { // C <= x
			lo, hi = a.C, max
		}
	case b.IsConst() && !a.IsConst():
		x = a
		if c.Op == OpUlt || c.Op == OpSlt { // x < C
			if b.C == min {
				return nil, 0, 0, false, false
			}
			lo, hi = min, (b.C-1)&m
		} else {
			lo, hi = min, b.C
		}
	default:
		return nil, 0, 0, false, false
	}
	if neg {
		switch {
		case lo == min && hi != max:
			lo, hi = (hi+1)&m, max
		case hi == max && lo != min:
			lo, hi = min, (lo-1)&m
		default:
			return nil, 0, 0, false, false
		}
	}
	return x, lo, hi, signed, true
}

func (f factTab) learn(c *Term) {
	if c.Op == OpBAnd {
		for _, a := range c.A {
			f.learn(a)
		}
		return
	}
	x, lo, hi, signed, ok := cmpPattern(c)
	if !ok {
		return
	}
	iv := f[x.ID]
	if iv == nil {
		iv = fullIval(x.W)
		f[x.ID] = iv
	}
	if signed {
		if l := sx(lo, x.W); l > iv.slo {
			iv.slo = l
		}
		if h := sx(hi, x.W); h < iv.shi {
			iv.shi = h
		}
		// a non-negative signed range is also an unsigned range
		if iv.slo >= 0 {
			if uint64(iv.slo) > iv.ulo {
				iv.ulo = uint64(iv.slo)
			}
			if uint64(iv.shi) < iv.uhi {
				iv.uhi = uint64(iv.shi)
			}
		}
	} else {
		if lo > iv.ulo {
			iv.ulo = lo
		}
		if hi < iv.uhi {
			iv.uhi = hi
		}
		// an unsigned range below 2^(w-1) is also a signed range
		if iv.uhi <= mask(x.W)>>1 {
			if int64(iv.ulo) > iv.slo {
				iv.slo = int64(iv.ulo)
			}
			if int64(iv.uhi) < iv.shi {
				iv.shi = int64(iv.uhi)
			}
		}
	}
}

// decide returns (value, true) when the facts settle c.
func (f factTab) decide(c *Term) (bool, bool) {
	x, lo, hi, signed, ok := cmpPattern(c)
	if !ok {
		return false, false
	}
	iv := f[x.ID]
	if iv == nil {
		return false, false
	}
	if signed {
		l, h := sx(lo, x.W), sx(hi, x.W)
		if iv.slo >= l && iv.shi <= h {
			return true, true
		}
		if iv.shi < l || iv.slo > h {
			return false, true
		}
		return false, false
	}
	if iv.ulo >= lo && iv.uhi <= hi {
		return true, true
	}
	if iv.uhi < lo || iv.ulo > hi {
		return false, true
	}
	return false, false
}
