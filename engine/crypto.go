package main

// hashApp records one application of the hash model H(x) on a path (DESIGN.md 1.6).
type hashApp struct {
	in  SliceVal
	out []*Term
}
