package main

// Symbolic cryptography (DESIGN.md 1.6).
//
// H = SHA-256.  On concrete input the real digest is computed.  On symbolic input
// H(x) is 32 fresh bytes constrained, for every pair of applications on the path, by
// functional consistency (x = y ⇒ H(x) = H(y)), encoded exactly with a skolem index.
// Collision resistance (H(x) = H(y) ⇒ x = y) is stated exactly between inputs of equal concrete
// length, and for its length part (H(x) = H(y) ⇒ |x| = |y|) otherwise.

import (
	"crypto/sha256"
	"fmt"
	"go/types"
)

type hashApp struct {
	in   SliceVal
	out  []*Term
	conc bool
}

type hashState struct {
	chunks []SliceVal
}

func (e *Eng) hashStates() map[*Value]*hashState {
	if e.path.hstates == nil {
		e.path.hstates = map[*Value]*hashState{}
	}
	return e.path.hstates
}

func (e *Eng) newDigest() Value {
	T := e.namedType("crypto/sha256", "digest")
	v := e.zero(T)
	p := &v
	e.hashStates()[p] = &hashState{}
	return Iface{T: types.NewPointer(T), V: p}
}

func (e *Eng) concat(chunks []SliceVal, name string) SliceVal {
	tb := e.tb
	total := tb.I64(0)
	for _, c := range chunks {
		total = tb.Add(total, c.Len)
	}
	o := e.newObj(total, name)
	off := tb.I64(0)
	for _, c := range chunks {
		if c.Obj != nil {
			e.bcopy(o, off, c.Len, c.Obj.cont, c.Off)
		}
		off = tb.Add(off, c.Len)
	}
	return SliceVal{o, tb.I64(0), total, total}
}

// hashOf applies the model H to a byte view.
func (e *Eng) hashOf(in SliceVal) []*Term {
	tb := e.tb
	p := e.path
	if b, ok := e.concBytes(in); ok {
		d := sha256.Sum256(b)
		out := make([]*Term, 32)
		for i := range out {
			out[i] = tb.Const(8, uint64(d[i]))
		}
		p.hashes = append(p.hashes, &hashApp{in: in, out: out, conc: true})
		return out
	}
	// structurally equal inputs get the very same output terms (no relational query needed later)
	for _, prev := range p.hashes {
		if !prev.conc && e.ropeEqual(in, prev.in) {
			e.stats.RopeHits++
			return prev.out
		}
	}
	n := len(p.hashes)
	out := make([]*Term, 32)
	for i := range out {
		out[i] = tb.Var(fmt.Sprintf("H!%d[%d]", n, i), 8)
	}
	app := &hashApp{in: in, out: out}
	for j, prev := range p.hashes {
		// out ≠ prev.out ⇒ inputs differ (length, or content at a skolem index)
		var eqs []*Term
		for i := 0; i < 32; i++ {
			eqs = append(eqs, tb.Eq(out[i], prev.out[i]))
		}
		outEq := tb.And(eqs...)
		if in.Len.IsConst() && prev.in.Len.IsConst() && in.Len.C != prev.in.Len.C {
			// different lengths: the inputs differ, so do the digests (collision resistance)
			e.assertPC(tb.BNot(outEq))
			continue
		}
		if in.Len.IsConst() && prev.in.Len.IsConst() && in.Len.C <= 1<<14 {
			// equal concrete lengths: state both directions exactly (functional consistency and
			// collision resistance) position by position; most equalities fold away
			var same []*Term
			for i := uint64(0); i < in.Len.C; i++ {
				ci := tb.Const(64, i)
				same = append(same, tb.Eq(e.sliceAt(in, ci), e.sliceAt(prev.in, ci)))
			}
			e.assertPC(tb.Eq(outEq, tb.And(same...)))
			continue
		}
		k := tb.Var(fmt.Sprintf("hk!%d!%d", n, j), 64)
		differ := tb.Or(tb.BNot(tb.Eq(in.Len, prev.in.Len)),
			tb.And(tb.Ult(k, in.Len), tb.BNot(tb.Eq(e.sliceAt(in, k), e.sliceAt(prev.in, k)))))
		e.assertPC(tb.Or(outEq, differ))
		e.assertPC(tb.Or(tb.BNot(outEq), tb.Eq(in.Len, prev.in.Len))) // collision resistance, length part
		for _, jt := range p.hashInj {                                // collision resistance instantiated at the indices the harness named
			e.assertPC(tb.Or(tb.BNot(outEq), tb.BNot(tb.Ult(jt, in.Len)), tb.Eq(e.sliceAt(in, jt), e.sliceAt(prev.in, jt))))
		}
	}
	p.hashes = append(p.hashes, app)
	return out
}

func (e *Eng) outSlice(out []*Term) SliceVal { return e.termsSlice(out, "digest") }

func init() {
	reg := func(name string, f intrinsic) { intrinsics[name] = f }
	reg("(crypto.Hash).New", func(fr *frame, a []Value) Value {
		e := fr.e
		h := a[0].(*Term)
		if !h.IsConst() || h.C != 5 { // crypto.SHA256
			e.unsupported("crypto.Hash(%v).New: only SHA-256 is modelled", h)
		}
		return e.newDigest()
	})
	reg(vsymPath+".HashInjectiveAt", func(fr *frame, a []Value) Value {
		fr.e.path.hashInj = append(fr.e.path.hashInj, a[0].(*Term))
		return nil
	})
	reg("crypto/sha256.New", func(fr *frame, a []Value) Value { return fr.e.newDigest() })
	reg("(crypto.Hash).Size", func(fr *frame, a []Value) Value {
		e := fr.e
		h := a[0].(*Term)
		sizes := map[uint64]int64{3: 20, 4: 28, 5: 32, 6: 48, 7: 64, 2: 16}
		if h.IsConst() {
			if s, ok := sizes[h.C]; ok {
				return e.tb.I64(s)
			}
		}
		e.unsupported("crypto.Hash.Size of %v", h)
		return nil
	})
	reg("(crypto.Hash).Available", func(fr *frame, a []Value) Value {
		h := a[0].(*Term)
		return fr.e.tb.Bool(h.IsConst() && h.C == 5)
	})
	reg("(*crypto/sha256.digest).Write", func(fr *frame, a []Value) Value {
		e := fr.e
		st := e.hashStates()[a[0].(*Value)]
		if st == nil {
			e.unsupported("sha256 digest not created through the model")
		}
		p := a[1].(SliceVal)
		if p.Obj != nil {
			st.chunks = append(st.chunks, e.freeze(p, "hashchunk"))
		}
		return Tuple{p.Len, Iface{}}
	})
	reg("(*crypto/sha256.digest).Sum", func(fr *frame, a []Value) Value {
		e := fr.e
		st := e.hashStates()[a[0].(*Value)]
		if st == nil {
			e.unsupported("sha256 digest not created through the model")
		}
		in := a[1].(SliceVal)
		out := e.hashOf(e.concat(st.chunks, "hashinput"))
		return e.appendBytes(in, e.outSlice(out))
	})
	reg("(*crypto/sha256.digest).Size", func(fr *frame, a []Value) Value { return fr.e.tb.I64(32) })
	reg("(*crypto/sha256.digest).BlockSize", func(fr *frame, a []Value) Value { return fr.e.tb.I64(64) })
	reg("(*crypto/sha256.digest).Reset", func(fr *frame, a []Value) Value {
		e := fr.e
		if st := e.hashStates()[a[0].(*Value)]; st != nil {
			st.chunks = nil
		}
		return nil
	})
	reg("crypto/sha256.Sum256", func(fr *frame, a []Value) Value {
		e := fr.e
		in := a[0].(SliceVal)
		if in.Obj == nil {
			in = e.concSlice(nil)
		}
		out := e.hashOf(e.freeze(in, "hashinput"))
		o := e.newObj(e.tb.I64(32), "sum256")
		for i, t := range out {
			e.bwrite(o, e.tb.I64(int64(i)), t)
		}
		return BArr{o}
	})
}
