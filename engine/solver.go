package main

// Solver bridge: one persistent incremental z3 process per worker plus a
// one-shot portfolio (z3 4.8.12, z3 5.1.0, cvc5 --solve-bv-as-int=sum, cvc5)
// used when the incremental solver answers unknown / times out.
// Any "(error" line, unknown or time-out is inconclusive and counted.

import (
	"bufio"
	"context"
	"fmt"
	"io"
	"os"
	"os/exec"
	"strconv"
	"strings"
	"sync/atomic"
	"time"
)

type Result int

const (
	Unsat Result = iota
	Sat
	Unknown
)

func (r Result) String() string { return [...]string{"unsat", "sat", "unknown"}[r] }

type SolverStats struct {
	Sat, Unsat, Unknown, Errors int
	OneShot                     int
	OneShotWins                 map[string]int
	TimeIncr, TimeOneShot       time.Duration
	Restarts                    int
	MaxQuery                    time.Duration
}

type proc struct {
	cmd *exec.Cmd
	in  io.WriteCloser
	out *bufio.Reader
	seq int
}

type Solver struct {
	tb         *TB
	p          *proc // active incremental process
	pBV, pAll  *proc
	needAll    bool // the path declared an array or an uninterpreted function
	log        []string
	defined    map[int]bool
	declared   map[string]bool
	Stats      SolverStats
	IncrMs     int // per-query soft timeout for the incremental solver
	OneShotSec int // cap for the portfolio
	PreferCVC5 bool
	scratch    string
	dumpN      int
	Trace      io.Writer
}

const prelude = "(set-option :produce-models true)\n(set-logic ALL)\n"
const preludeBV = "(set-option :produce-models true)\n(set-logic QF_BV)\n"

func NewSolver(tb *TB, scratch string) *Solver {
	s := &Solver{tb: tb, defined: map[int]bool{}, declared: map[string]bool{}, IncrMs: 3000, OneShotSec: 20, scratch: scratch}
	s.Stats.OneShotWins = map[string]int{}
	return s
}

func (s *Solver) start() error {
	if s.needAll && s.pAll != nil {
		s.p = s.pAll
		return nil
	}
	if !s.needAll && s.pBV != nil {
		s.p = s.pBV
		return nil
	}
	cmd := exec.Command("z3-new", "-in", "-smt2")
	in, err := cmd.StdinPipe()
	if err != nil {
		return err
	}
	out, err := cmd.StdoutPipe()
	if err != nil {
		return err
	}
	cmd.Stderr = cmd.Stdout
	if err := cmd.Start(); err != nil {
		return err
	}
	s.p = &proc{cmd: cmd, in: in, out: bufio.NewReaderSize(out, 1<<16)}
	if tf := os.Getenv("SYMGO_SMTTRACE"); tf != "" && s.Trace == nil {
		f, _ := os.OpenFile(tf, os.O_CREATE|os.O_WRONLY|os.O_APPEND, 0o644)
		s.Trace = f
	}
	if s.needAll {
		s.pAll = s.p
		s.raw(prelude)
	} else {
		s.pBV = s.p
		s.raw(preludeBV)
	}
	s.raw(fmt.Sprintf("(set-option :timeout %d)\n", s.IncrMs))
	s.raw("(push 1)\n")
	return nil
}

func (s *Solver) killProc(p *proc) {
	if p == nil {
		return
	}
	p.in.Close()
	p.cmd.Process.Kill()
	p.cmd.Wait()
	if s.pBV == p {
		s.pBV = nil
	}
	if s.pAll == p {
		s.pAll = nil
	}
	if s.p == p {
		s.p = nil
	}
}

// switchToAll moves the path from the QF_BV process to the ALL process.
func (s *Solver) switchToAll() {
	if s.needAll {
		return
	}
	s.needAll = true
	if s.p != nil {
		// leave the BV process at a clean level for the next path
		s.raw("(pop 1)\n(push 1)\n")
	}
	s.p = nil
	fresh := s.pAll == nil
	if err := s.start(); err != nil {
		panic(err)
	}
	if !fresh {
		s.raw("(pop 1)\n(push 1)\n")
	}
	for _, l := range s.log {
		s.raw(l)
	}
}

func (s *Solver) raw(cmd string) {
	if s.Trace != nil {
		io.WriteString(s.Trace, cmd)
	}
	io.WriteString(s.p.in, cmd)
}

func (s *Solver) Close() {
	s.killProc(s.pBV)
	s.killProc(s.pAll)
	s.p = nil
}

func (s *Solver) restart() {
	s.killProc(s.p)
	s.Stats.Restarts++
	if err := s.start(); err != nil {
		panic(err)
	}
	for _, l := range s.log {
		s.raw(l)
	}
}

// NewPath forgets everything asserted so far.
func (s *Solver) NewPath() {
	s.log = s.log[:0]
	s.defined = map[int]bool{}
	s.declared = map[string]bool{}
	s.needAll = false
	had := s.pBV != nil
	s.p = nil
	if err := s.start(); err != nil {
		panic(err)
	}
	if had {
		s.raw("(pop 1)\n(push 1)\n")
	}
}

func (s *Solver) emit(line string) {
	s.log = append(s.log, line)
	if s.p != nil {
		s.raw(line)
	}
}

func (s *Solver) define(t *Term) {
	if s.defined[t.ID] {
		return
	}
	switch t.Op {
	case OpConst:
		return
	case OpVar, OpArrVar:
		s.defined[t.ID] = true
		if t.Op == OpArrVar {
			s.switchToAll()
		}
		if !s.declared[t.Name] {
			s.declared[t.Name] = true
			s.emit(fmt.Sprintf("(declare-fun %s () %s)\n", smtName(t.Name), sortStr(t.W)))
		}
		return
	}
	for _, a := range t.A {
		s.define(a)
	}
	s.defined[t.ID] = true
	if t.Op == OpUF {
		s.switchToAll()
	}
	if t.Op == OpUF && !s.declared[t.Name] {
		s.declared[t.Name] = true
		var sb strings.Builder
		for i, a := range t.A {
			if i > 0 {
				sb.WriteByte(' ')
			}
			sb.WriteString(sortStr(a.W))
		}
		s.emit(fmt.Sprintf("(declare-fun %s (%s) %s)\n", smtName(t.Name), sb.String(), sortStr(t.W)))
	}
	s.emit(fmt.Sprintf("(define-fun t%d () %s %s)\n", t.ID, sortStr(t.W), t.body()))
}

func (s *Solver) Assert(t *Term) {
	if t.IsTrue() {
		return
	}
	s.define(t)
	s.emit(fmt.Sprintf("(assert %s)\n", t.ref()))
}

// readUntilMarker collects output lines up to the echo marker.
func (s *Solver) readUntilMarker(marker string, deadline time.Duration) ([]string, bool) {
	type res struct {
		lines []string
		ok    bool
	}
	ch := make(chan res, 1)
	p := s.p
	go func() {
		var lines []string
		for {
			l, err := p.out.ReadString('\n')
			if err != nil {
				ch <- res{lines, false}
				return
			}
			l = strings.TrimRight(l, "\r\n")
			if l == marker || l == "\""+marker+"\"" {
				ch <- res{lines, true}
				return
			}
			lines = append(lines, l)
		}
	}()
	select {
	case r := <-ch:
		return r.lines, r.ok
	case <-time.After(deadline):
		p.cmd.Process.Kill()
		<-ch
		return nil, false
	}
}

var markerSeq int64

// Check decides PC ∧ extras.  When sat and want != nil it returns their values.
func (s *Solver) Check(extras []*Term, want []*Term) (Result, []uint64) {
	for _, e := range extras {
		if e.IsFalse() {
			s.Stats.Unsat++
			return Unsat, nil
		}
	}
	for _, e := range extras {
		s.define(e)
	}
	for _, w := range want {
		s.define(w)
	}
	if s.p == nil {
		s.restart()
	}
	t0 := time.Now()
	res := Unknown
	var vals []uint64
	if !s.PreferCVC5 {
		res, vals = s.checkIncr(extras, want)
		d := time.Since(t0)
		if sd := os.Getenv("SYMGO_SLOWDIR"); sd != "" && d > 700*time.Millisecond {
			s.dumpN++
			os.WriteFile(fmt.Sprintf("%s/slow%d_%dms_%s.smt2", sd, s.dumpN, d.Milliseconds(), res), []byte(s.script(extras, want)), 0o644)
		}
		s.Stats.TimeIncr += d
		if d > s.Stats.MaxQuery {
			s.Stats.MaxQuery = d
		}
	}
	if res == Unknown {
		t1 := time.Now()
		res, vals = s.checkOneShot(extras, want)
		d := time.Since(t1)
		s.Stats.TimeOneShot += d
		if d > s.Stats.MaxQuery {
			s.Stats.MaxQuery = d
		}
	}
	if ud := os.Getenv("SYMGO_UNKDIR"); ud != "" && res == Unknown {
		s.dumpN++
		os.WriteFile(fmt.Sprintf("%s/unk%d_%d.smt2", ud, os.Getpid(), s.dumpN), []byte(s.script(extras, want)), 0o644)
	}
	switch res {
	case Sat:
		s.Stats.Sat++
	case Unsat:
		s.Stats.Unsat++
	default:
		s.Stats.Unknown++
	}
	return res, vals
}

func (s *Solver) checkIncr(extras []*Term, want []*Term) (Result, []uint64) {
	var sb strings.Builder
	sb.WriteString("(check-sat-assuming (")
	for _, e := range extras {
		if e.IsTrue() {
			continue
		}
		sb.WriteString(e.ref())
		sb.WriteByte(' ')
	}
	m := fmt.Sprintf("<<m%d>>", atomic.AddInt64(&markerSeq, 1))
	fmt.Fprintf(&sb, "))\n(echo \"%s\")\n", m)
	s.raw(sb.String())
	lines, ok := s.readUntilMarker(m, time.Duration(s.IncrMs)*time.Millisecond+2*time.Second)
	if !ok {
		s.restart()
		return Unknown, nil
	}
	res := Unknown
	for _, l := range lines {
		switch {
		case l == "sat":
			res = Sat
		case l == "unsat":
			res = Unsat
		case strings.HasPrefix(l, "(error"):
			s.Stats.Errors++
			if os.Getenv("SYMGO_DEBUG") != "" {
				fmt.Fprintln(os.Stderr, "solver error:", l)
			}
			return Unknown, nil
		}
	}
	var vals []uint64
	if res == Sat && len(want) > 0 {
		vals, ok = s.getValuesIncr(want)
		if !ok {
			res = Unknown
		}
	}
	return res, vals
}

func (s *Solver) getValuesIncr(want []*Term) ([]uint64, bool) {
	vals := make([]uint64, len(want))
	const chunk = 400
	for i := 0; i < len(want); i += chunk {
		j := i + chunk
		if j > len(want) {
			j = len(want)
		}
		var sb strings.Builder
		sb.WriteString("(get-value (")
		for _, w := range want[i:j] {
			sb.WriteString(w.ref())
			sb.WriteByte(' ')
		}
		m := fmt.Sprintf("<<m%d>>", atomic.AddInt64(&markerSeq, 1))
		fmt.Fprintf(&sb, "))\n(echo \"%s\")\n", m)
		s.raw(sb.String())
		lines, ok := s.readUntilMarker(m, 30*time.Second)
		if !ok {
			s.restart()
			return nil, false
		}
		txt := strings.Join(lines, "\n")
		if strings.Contains(txt, "(error") {
			s.Stats.Errors++
			return nil, false
		}
		vs, ok := parseValues(txt, j-i)
		if !ok {
			s.Stats.Errors++
			return nil, false
		}
		copy(vals[i:j], vs)
	}
	return vals, true
}

// parseValues parses "((e v) (e v) ...)" returning the v's in order.
func parseValues(txt string, n int) ([]uint64, bool) {
	toks := tokenize(txt)
	pos := 0
	var parse func() interface{}
	parse = func() interface{} {
		if pos >= len(toks) {
			return nil
		}
		t := toks[pos]
		pos++
		if t == "(" {
			var l []interface{}
			for pos < len(toks) && toks[pos] != ")" {
				l = append(l, parse())
			}
			pos++
			return l
		}
		return t
	}
	top, ok := parse().([]interface{})
	if !ok || len(top) != n {
		return nil, false
	}
	out := make([]uint64, n)
	for i, e := range top {
		pair, ok := e.([]interface{})
		if !ok || len(pair) != 2 {
			return nil, false
		}
		v, ok := parseVal(pair[1])
		if !ok {
			return nil, false
		}
		out[i] = v
	}
	return out, true
}

func parseVal(x interface{}) (uint64, bool) {
	switch v := x.(type) {
	case string:
		switch {
		case v == "true":
			return 1, true
		case v == "false":
			return 0, true
		case strings.HasPrefix(v, "#x"):
			u, err := strconv.ParseUint(v[2:], 16, 64)
			return u, err == nil
		case strings.HasPrefix(v, "#b"):
			u, err := strconv.ParseUint(v[2:], 2, 64)
			return u, err == nil
		}
	case []interface{}:
		// (_ bv5 32)
		if len(v) == 3 {
			if s, ok := v[1].(string); ok && strings.HasPrefix(s, "bv") {
				u, err := strconv.ParseUint(s[2:], 10, 64)
				return u, err == nil
			}
		}
	}
	return 0, false
}

func tokenize(s string) []string {
	var toks []string
	i := 0
	for i < len(s) {
		c := s[i]
		switch {
		case c == '(' || c == ')':
			toks = append(toks, string(c))
			i++
		case c == ' ' || c == '\n' || c == '\t' || c == '\r':
			i++
		case c == '|':
			j := i + 1
			for j < len(s) && s[j] != '|' {
				j++
			}
			toks = append(toks, s[i:j+1])
			i = j + 1
		case c == '"':
			j := i + 1
			for j < len(s) && s[j] != '"' {
				j++
			}
			toks = append(toks, s[i:j+1])
			i = j + 1
		default:
			j := i
			for j < len(s) && !strings.ContainsRune("() \n\t\r", rune(s[j])) {
				j++
			}
			toks = append(toks, s[i:j])
			i = j
		}
	}
	return toks
}

type oneShotBackend struct {
	name string
	args func(file string, sec int) []string
}

var oneShotBackends = []oneShotBackend{
	{"cvc5-bvint", func(f string, sec int) []string {
		return []string{"cvc5", "--solve-bv-as-int=sum", fmt.Sprintf("--tlimit=%d", sec*1000), f}
	}},
	{"z3-new", func(f string, sec int) []string { return []string{"z3-new", fmt.Sprintf("-T:%d", sec), f} }},
	{"z3", func(f string, sec int) []string { return []string{"z3", fmt.Sprintf("-T:%d", sec), f} }},
	{"cvc5", func(f string, sec int) []string {
		return []string{"cvc5", fmt.Sprintf("--tlimit=%d", sec*1000), f}
	}},
}

func (s *Solver) script(extras []*Term, want []*Term) string {
	var sb strings.Builder
	if s.needAll {
		sb.WriteString(prelude)
	} else {
		sb.WriteString(preludeBV)
	}
	for _, l := range s.log {
		sb.WriteString(l)
	}
	for _, e := range extras {
		if e.IsTrue() {
			continue
		}
		fmt.Fprintf(&sb, "(assert %s)\n", e.ref())
	}
	sb.WriteString("(check-sat)\n")
	if len(want) > 0 {
		sb.WriteString("(get-value (")
		for _, w := range want {
			sb.WriteString(w.ref())
			sb.WriteByte(' ')
		}
		sb.WriteString("))\n")
	}
	return sb.String()
}

func (s *Solver) checkOneShot(extras []*Term, want []*Term) (Result, []uint64) {
	s.Stats.OneShot++
	s.dumpN++
	file := fmt.Sprintf("%s/q%d.smt2", s.scratch, s.dumpN)
	if err := os.WriteFile(file, []byte(s.script(extras, want)), 0o644); err != nil {
		return Unknown, nil
	}
	defer os.Remove(file)
	ctx, cancel := context.WithCancel(context.Background())
	defer cancel()
	type ans struct {
		name string
		res  Result
		vals []uint64
	}
	ch := make(chan ans, len(oneShotBackends))
	for _, be := range oneShotBackends {
		be := be
		go func() {
			a := be.args(file, s.OneShotSec)
			cmd := exec.CommandContext(ctx, a[0], a[1:]...)
			out, _ := cmd.Output()
			txt := string(out)
			r := Unknown
			var vals []uint64
			if !strings.Contains(txt, "(error") {
				first := strings.TrimSpace(strings.SplitN(txt, "\n", 2)[0])
				switch first {
				case "sat":
					r = Sat
				case "unsat":
					r = Unsat
				}
				if r == Sat && len(want) > 0 {
					idx := strings.Index(txt, "\n")
					var ok bool
					vals, ok = parseValues(txt[idx+1:], len(want))
					if !ok {
						r = Unknown
					}
				}
			}
			ch <- ans{be.name, r, vals}
		}()
	}
	for range oneShotBackends {
		a := <-ch
		if a.res != Unknown {
			s.Stats.OneShotWins[a.name]++
			return a.res, a.vals
		}
	}
	return Unknown, nil
}

// DumpQuery writes the current path-level script plus extras for debugging.
func (s *Solver) DumpQuery(path string, extras []*Term) {
	os.WriteFile(path, []byte(s.script(extras, nil)), 0o644)
}
