package main

// Symbolic interpreter for go/ssa (frames, instructions, calls, defer/panic).
// Architecture after golang.org/x/tools/go/ssa/interp.

import (
	"fmt"
	"go/constant"
	"go/token"
	"go/types"
	"os"
	"runtime"
	"strings"
	"sync"
	"time"

	"golang.org/x/tools/go/ssa"
)

type endKind int

const (
	endUnsupported endKind = iota
	endUnwind
	endAssumeFalse
	endExit // log.Fatal / os.Exit
	endInfeasible
	endStop // harness asked to stop the path (after assertion bookkeeping)
)

var endNames = map[endKind]string{endUnsupported: "unsupported", endUnwind: "unwind", endAssumeFalse: "assume-false", endExit: "exit", endInfeasible: "infeasible", endStop: "stop"}

// pathEnd terminates the current path (Go panic, not visible to the interpreted program).
type pathEnd struct {
	kind endKind
	msg  string
	site string
}

// goPanic is a panic of the interpreted program.
type goPanic struct {
	val  Value // interface value passed to panic()
	msg  string
	site string
}

type Config struct {
	MaxDecisions int
	MaxSteps     int
	RefineReads  bool
	Trace        bool
}

type EngStats struct {
	Steps         int64
	Decisions     int64
	Forks         int64
	RefineQueries int64
	RopeHits      int64
	Paths         int64
	Funcs         map[string]int
	Intrinsics    map[string]int
	Unsupported   map[string]int
}

type Eng struct {
	prog            *ssa.Program
	ld              *Loaded
	tb              *TB
	solver          *Solver
	cfg             Config
	bypass          string // intrinsic name to skip on the next call (callReal)
	lastModelResult Result
	globals         map[*ssa.Global]*Value
	pkgInit         map[*ssa.Package]int // 0 not started, 1 running, 2 done
	undo            []undoRec
	nobj            int

	readMemo   map[readKey]*Term
	refineMemo map[int]int
	inModel    bool
	initMode   int

	path  *pathState
	stats EngStats
	steps int

	runtimeErrT  types.Type
	intr         map[string]intrinsic
	depth        int
	curHS        *HarnessRun
	curFn        *ssa.Function
	pathFindings []*Finding
}

type deferred struct {
	fn    Value
	args  []Value
	instr *ssa.Defer
	tail  *deferred
}

type frame struct {
	e                *Eng
	caller           *frame
	fn               *ssa.Function
	block, prevBlock *ssa.BasicBlock
	env              map[ssa.Value]Value
	locals           []Value
	defers           *deferred
	result           Value
	panicking        bool
	panic            interface{}
	phitemps         []Value
	callPos          token.Pos
}

func (e *Eng) pos(p token.Pos) string {
	if p == token.NoPos {
		return "?"
	}
	ps := e.prog.Fset.Position(p)
	f := ps.Filename
	if i := strings.LastIndex(f, "/"); i >= 0 {
		if j := strings.LastIndex(f[:i], "/"); j >= 0 {
			f = f[j+1:]
		}
	}
	return fmt.Sprintf("%s:%d", f, ps.Line)
}

func (e *Eng) unsupported(format string, args ...interface{}) {
	msg := fmt.Sprintf(format, args...)
	if e.curFn != nil {
		msg += " (in " + e.curFn.String() + ")"
	}
	panic(pathEnd{kind: endUnsupported, msg: msg})
}

func (fr *frame) get(key ssa.Value) Value {
	switch key := key.(type) {
	case nil:
		return nil
	case *ssa.Function, *ssa.Builtin:
		return key
	case *ssa.Const:
		return fr.e.constValue(key)
	case *ssa.Global:
		return fr.e.global(key)
	}
	if r, ok := fr.env[key]; ok {
		return r
	}
	panic(fmt.Sprintf("get: no value for %T: %v in %s", key, key.Name(), fr.fn))
}

func (e *Eng) constValue(c *ssa.Const) Value {
	t := c.Type()
	if c.Value == nil {
		return e.zero(t)
	}
	if tp, ok := t.(*types.TypeParam); ok {
		_ = tp
		e.unsupported("const of type parameter")
	}
	if b, ok := t.Underlying().(*types.Basic); ok {
		if w, signed, ok := intWidth(b); ok {
			if w == 0 {
				return e.tb.Bool(constant.BoolVal(c.Value))
			}
			if signed {
				return e.tb.Const(w, uint64(c.Int64()))
			}
			return e.tb.Const(w, c.Uint64())
		}
		switch {
		case b.Info()&types.IsString != 0:
			if c.Value.Kind() == constant.String {
				return constant.StringVal(c.Value)
			}
			return string(rune(c.Int64()))
		case b.Info()&types.IsFloat != 0:
			return c.Float64()
		case b.Info()&types.IsComplex != 0:
			return c.Complex128()
		}
	}
	panic(fmt.Sprintf("constValue: %s", c))
}

// ---- globals and package initialisation ----

func (e *Eng) global(g *ssa.Global) *Value {
	if v, ok := e.globals[g]; ok {
		return v
	}
	pkg := g.Pkg
	if e.pkgInit[pkg] == 0 {
		if !e.initAllowed(pkg) {
			if e.initMode > 0 || pkg.Pkg.Path() == "os" {
				e.allocGlobals(pkg)
				e.pkgInit[pkg] = 2
				return e.globals[g]
			}
			e.unsupported("global %s of a package whose init is not interpreted", g)
		}
		e.initPkg(pkg)
	}
	if v, ok := e.globals[g]; ok {
		return v
	}
	e.allocGlobals(pkg)
	return e.globals[g]
}

func (e *Eng) allocGlobals(pkg *ssa.Package) {
	for _, m := range pkg.Members {
		if g, ok := m.(*ssa.Global); ok {
			if _, done := e.globals[g]; !done {
				v := e.zero(g.Type().(*types.Pointer).Elem())
				e.globals[g] = &v
			}
		}
	}
	if pkg.Pkg.Path() == "os" {
		// os's init is not interpreted (it talks to the runtime); its error sentinels are aliases
		// of io/fs's, which are
		if fsp := e.prog.ImportedPackage("io/fs"); fsp != nil {
			for _, n := range []string{"ErrInvalid", "ErrPermission", "ErrExist", "ErrNotExist", "ErrClosed"} {
				og, ok1 := pkg.Members[n].(*ssa.Global)
				fg, ok2 := fsp.Members[n].(*ssa.Global)
				if ok1 && ok2 {
					*e.globals[og] = *e.global(fg)
				}
			}
		}
	}
}

var initAllow = map[string]bool{
	"errors": true, "io": true, "io/fs": true, "internal/oserror": true, "bytes": true, "strings": true,
	"sort": true, "slices": true, "cmp": true, "path": true, "encoding/binary": true, "encoding/hex": true,
	"encoding/asn1": true, "unicode/utf8": true, "unicode/utf16": true, "unicode": true, "debug/pe": true,
	"golang.org/x/crypto/cryptobyte": true, "golang.org/x/crypto/cryptobyte/asn1": true,
	"github.com/pkg/errors": true, "strconv": true, "math": true, "math/bits": true, "internal/byteorder": true,
	"internal/saferio": true, "syscall": false, "os": false, "time": false,
	"golang.org/x/text/encoding/unicode": true, "golang.org/x/text/transform": true, "golang.org/x/text/encoding": true,
	"golang.org/x/text/encoding/internal": true, "golang.org/x/text/encoding/internal/identifier": true,
	"golang.org/x/text/internal/utf8internal": true, "golang.org/x/text/runes": true,
	"github.com/spf13/afero": true, "github.com/spf13/afero/mem": true, "path/filepath": true,
	"hash": true, "crypto": false, "testing/fstest": true, "sync": true, "sync/atomic": true,
	"internal/bytealg": true, "internal/stringslite": true, "iter": true, "maps": true, "unique": false,
}

func (e *Eng) initAllowed(pkg *ssa.Package) bool {
	p := pkg.Pkg.Path()
	if strings.HasPrefix(p, "github.com/foxboron/go-uefi") {
		return true
	}
	return initAllow[p]
}

func (e *Eng) initPkg(pkg *ssa.Package) {
	if e.pkgInit[pkg] != 0 {
		return
	}
	e.pkgInit[pkg] = 1
	e.allocGlobals(pkg)
	init := pkg.Func("init")
	if init == nil || init.Blocks == nil {
		e.pkgInit[pkg] = 2
		return
	}
	e.initMode++
	savedPath := e.path
	e.path = nil
	func() {
		defer func() {
			if r := recover(); r != nil {
				switch r := r.(type) {
				case pathEnd:
					if os.Getenv("SYMGO_DEBUG") != "" {
						fmt.Fprintf(os.Stderr, "init of %s stopped: %s\n", pkg.Pkg.Path(), r.msg)
					}
				case goPanic:
					fmt.Fprintf(os.Stderr, "init of %s panicked: %s\n", pkg.Pkg.Path(), r.msg)
				default:
					panic(r)
				}
			}
		}()
		e.callSSA(nil, token.NoPos, init, nil, nil)
	}()
	e.path = savedPath
	e.initMode--
	e.pkgInit[pkg] = 2
}

// ---- calls ----

func (e *Eng) call(caller *frame, pos token.Pos, fn Value, args []Value) Value {
	switch fn := fn.(type) {
	case *ssa.Function:
		if fn == nil {
			e.throw("call of nil function", pos)
		}
		return e.callSSA(caller, pos, fn, args, nil)
	case *Closure:
		return e.callSSA(caller, pos, fn.Fn, args, fn.Env)
	case *ssa.Builtin:
		return e.callBuiltin(caller, pos, fn, args)
	case nil:
		e.throw("invalid memory address or nil pointer dereference (nil func)", pos)
	}
	panic(fmt.Sprintf("cannot call %T", fn))
}

const maxDepth = 400

// callReal runs the SSA body of the function an intrinsic stands for (the intrinsic handles only
// some cases exactly and leaves the rest to the real code).
func (e *Eng) callReal(fr *frame, name string, args []Value) Value {
	e.bypass = name
	return e.callSSA(fr.caller, fr.callPos, fr.fn, args, nil)
}

func (e *Eng) callSSA(caller *frame, pos token.Pos, fn *ssa.Function, args []Value, env []Value) Value {
	fr := &frame{e: e, caller: caller, fn: fn, callPos: pos}
	if fn.Parent() == nil {
		name := fn.String()
		if in, ok := e.intr[name]; ok {
			if e.bypass == name {
				e.bypass = "" // an intrinsic deferring to the real code (callReal)
			} else {
				e.stats.Intrinsics[name]++
				return in(fr, args)
			}
		}
		// package initialisers are routed through initPkg
		if fn.Name() == "init" && fn.Synthetic != "" && fn.Pkg != nil && fn.Signature.Recv() == nil && caller != nil {
			if e.initAllowed(fn.Pkg) {
				e.initPkg(fn.Pkg)
			} else if e.pkgInit[fn.Pkg] == 0 {
				e.allocGlobals(fn.Pkg)
				e.pkgInit[fn.Pkg] = 2
			}
			return nil
		}
		if fn.Blocks == nil {
			if e.initMode > 0 {
				return e.zeroResult(fn.Signature)
			}
			e.unsupported("no code for function %s", name)
		}
	}
	if fn.TypeParams().Len() > 0 && len(fn.TypeArgs()) == 0 {
		e.unsupported("uninstantiated generic %s", fn)
	}
	if fn.Blocks == nil {
		if e.initMode > 0 {
			return e.zeroResult(fn.Signature)
		}
		e.unsupported("no code for function %s", fn)
	}
	e.depth++
	if e.depth > maxDepth {
		e.depth--
		panic(pathEnd{kind: endUnwind, msg: "call depth exceeded in " + fn.String()})
	}
	defer func() { e.depth-- }()
	if e.initMode == 0 {
		e.stats.Funcs[fn.String()]++
	}
	fr.env = make(map[ssa.Value]Value, len(fn.Params)+8)
	fr.block = fn.Blocks[0]
	fr.locals = make([]Value, len(fn.Locals))
	for i, l := range fn.Locals {
		fr.locals[i] = e.zero(l.Type().Underlying().(*types.Pointer).Elem())
		fr.env[l] = &fr.locals[i]
	}
	for i, p := range fn.Params {
		fr.env[p] = args[i]
	}
	for i, fv := range fn.FreeVars {
		fr.env[fv] = env[i]
	}
	for fr.block != nil {
		e.runFrame(fr)
	}
	return fr.result
}

func (e *Eng) zeroResult(sig *types.Signature) Value {
	switch sig.Results().Len() {
	case 0:
		return nil
	case 1:
		return e.zero(sig.Results().At(0).Type())
	}
	return e.zero(sig.Results())
}

func (e *Eng) runFrame(fr *frame) {
	defer func() {
		if fr.block == nil {
			return
		}
		r := recover()
		if _, ok := r.(goPanic); !ok {
			panic(r) // pathEnd or an engine bug: not visible to the program
		}
		fr.panicking = true
		fr.panic = r
		fr.runDefers()
		fr.block = fr.fn.Recover
		if fr.block == nil {
			// recovered, no named results: return zero values
			fr.result = e.zeroResult(fr.fn.Signature)
		}
	}()
	for {
		nonPhis := fr.executePhis()
		for _, instr := range nonPhis {
			e.steps++
			if e.steps&0xffff == 0 && memoryExceeded() {
				panic(pathEnd{kind: endUnwind, msg: "memory budget of the checker exceeded (path abandoned, reported as not explored)"})
			}
			if e.steps > e.cfg.MaxSteps && e.initMode == 0 {
				panic(pathEnd{kind: endUnwind, msg: fmt.Sprintf("step budget exceeded in %s", fr.fn)})
			}
			if e.cfg.Trace && e.initMode == 0 {
				if v, ok := instr.(ssa.Value); ok {
					fmt.Fprintf(os.Stderr, "%*s%s: %s = %s\n", e.depth, "", fr.fn.Name(), v.Name(), instr)
				} else {
					fmt.Fprintf(os.Stderr, "%*s%s: %s\n", e.depth, "", fr.fn.Name(), instr)
				}
			}
			e.curFn = fr.fn
			if e.visitInstr(fr, instr) == kReturn {
				return
			}
		}
	}
}

func (fr *frame) executePhis() []ssa.Instruction {
	firstNonPhi := -1
	for i, instr := range fr.block.Instrs {
		if _, ok := instr.(*ssa.Phi); !ok {
			firstNonPhi = i
			break
		}
	}
	nonPhis := fr.block.Instrs[firstNonPhi:]
	if firstNonPhi > 0 {
		phis := fr.block.Instrs[:firstNonPhi]
		predIndex := -1
		for i, p := range fr.block.Preds {
			if p == fr.prevBlock {
				predIndex = i
				break
			}
		}
		fr.phitemps = fr.phitemps[:0]
		for _, phi := range phis {
			fr.phitemps = append(fr.phitemps, fr.get(phi.(*ssa.Phi).Edges[predIndex]))
		}
		for i, phi := range phis {
			fr.env[phi.(*ssa.Phi)] = fr.phitemps[i]
		}
	}
	return nonPhis
}

func (fr *frame) runDefer(d *deferred) {
	var ok bool
	defer func() {
		if !ok {
			r := recover()
			if _, isGo := r.(goPanic); !isGo {
				panic(r)
			}
			fr.panicking = true
			fr.panic = r
		}
	}()
	fr.e.call(fr, d.instr.Pos(), d.fn, d.args)
	ok = true
}

func (fr *frame) runDefers() {
	for d := fr.defers; d != nil; d = d.tail {
		fr.runDefer(d)
	}
	fr.defers = nil
	if fr.panicking {
		panic(fr.panic)
	}
}

func (e *Eng) doRecover(caller *frame) Value {
	if caller != nil && !caller.panicking && caller.caller != nil && caller.caller.panicking {
		caller.caller.panicking = false
		p := caller.caller.panic
		caller.caller.panic = nil
		if gp, ok := p.(goPanic); ok {
			return gp.val
		}
		panic(fmt.Sprintf("unexpected panic type %T in recover", p))
	}
	return Iface{}
}

// throw raises a Go run-time panic in the interpreted program.
func (e *Eng) throw(msg string, pos token.Pos) {
	site := e.pos(pos)
	panic(goPanic{val: Iface{T: e.runtimeErrT, V: "runtime error: " + msg}, msg: "runtime error: " + msg, site: site})
}

type continuation int

const (
	kNext continuation = iota
	kReturn
	kJump
)

func (e *Eng) prepareCall(fr *frame, call *ssa.CallCommon, pos token.Pos) (fn Value, args []Value) {
	v := fr.get(call.Value)
	if call.Method == nil {
		fn = v
	} else {
		recv, ok := v.(Iface)
		if !ok {
			panic(fmt.Sprintf("invoke on %T", v))
		}
		if recv.T == nil {
			e.throw("invalid memory address or nil pointer dereference (method call on nil interface)", pos)
		}
		f := e.prog.LookupMethod(recv.T, call.Method.Pkg(), call.Method.Name())
		if f == nil {
			panic(fmt.Sprintf("method set for dynamic type %v does not contain %s", recv.T, call.Method))
		}
		fn = f
		args = append(args, recv.V)
	}
	for _, arg := range call.Args {
		args = append(args, fr.get(arg))
	}
	return
}

func (e *Eng) visitInstr(fr *frame, instr ssa.Instruction) continuation {
	switch instr := instr.(type) {
	case *ssa.DebugRef:

	case *ssa.UnOp:
		fr.env[instr] = e.unop(fr, instr, fr.get(instr.X))

	case *ssa.BinOp:
		fr.env[instr] = e.binop(instr.Op, instr.X.Type(), fr.get(instr.X), fr.get(instr.Y), instr.Y.Type(), instr.Pos())

	case *ssa.Call:
		fn, args := e.prepareCall(fr, &instr.Call, instr.Pos())
		fr.env[instr] = e.call(fr, instr.Pos(), fn, args)

	case *ssa.ChangeInterface:
		fr.env[instr] = fr.get(instr.X)

	case *ssa.ChangeType:
		fr.env[instr] = fr.get(instr.X)

	case *ssa.Convert:
		fr.env[instr] = e.conv(instr.Type(), instr.X.Type(), fr.get(instr.X), instr.Pos())

	case *ssa.MultiConvert:
		e.unsupported("MultiConvert")

	case *ssa.SliceToArrayPointer:
		e.unsupported("SliceToArrayPointer")

	case *ssa.MakeInterface:
		fr.env[instr] = Iface{T: instr.X.Type(), V: e.copyVal(fr.get(instr.X))}

	case *ssa.Extract:
		fr.env[instr] = fr.get(instr.Tuple).(Tuple)[instr.Index]

	case *ssa.Slice:
		fr.env[instr] = e.slice(fr, instr)

	case *ssa.Return:
		switch len(instr.Results) {
		case 0:
		case 1:
			fr.result = fr.get(instr.Results[0])
		default:
			var res Tuple
			for _, r := range instr.Results {
				res = append(res, fr.get(r))
			}
			fr.result = res
		}
		fr.block = nil
		return kReturn

	case *ssa.RunDefers:
		fr.runDefers()

	case *ssa.Panic:
		v := fr.get(instr.X)
		panic(goPanic{val: v, msg: "panic: " + e.describe(v), site: e.pos(instr.Pos())})

	case *ssa.Send, *ssa.Go, *ssa.Select, *ssa.MakeChan:
		e.unsupported("concurrency instruction %T", instr)

	case *ssa.Store:
		e.store(instr.Val.Type(), fr.get(instr.Addr), fr.get(instr.Val), instr.Pos())

	case *ssa.If:
		c := fr.get(instr.Cond).(*Term)
		succ := 1
		if e.Decide(c) {
			succ = 0
		}
		fr.prevBlock, fr.block = fr.block, fr.block.Succs[succ]
		return kJump

	case *ssa.Jump:
		fr.prevBlock, fr.block = fr.block, fr.block.Succs[0]
		return kJump

	case *ssa.Defer:
		fn, args := e.prepareCall(fr, &instr.Call, instr.Pos())
		fr.defers = &deferred{fn: fn, args: args, instr: instr, tail: fr.defers}

	case *ssa.Alloc:
		var addr *Value
		if instr.Heap {
			addr = new(Value)
			fr.env[instr] = addr
		} else {
			addr = fr.env[instr].(*Value)
		}
		*addr = e.zero(instr.Type().Underlying().(*types.Pointer).Elem())

	case *ssa.MakeSlice:
		fr.env[instr] = e.makeSlice(instr.Type(), fr.get(instr.Len).(*Term), fr.get(instr.Cap).(*Term), instr.Len.Type(), instr.Pos())

	case *ssa.MakeMap:
		fr.env[instr] = &MapVal{ents: map[string]*mapEnt{}}

	case *ssa.Range:
		fr.env[instr] = e.rangeIter(fr.get(instr.X), instr.X.Type())

	case *ssa.Next:
		fr.env[instr] = e.next(fr.get(instr.Iter).(*iter), instr)

	case *ssa.FieldAddr:
		p := fr.get(instr.X)
		pv, ok := p.(*Value)
		if !ok {
			e.throw("invalid memory address or nil pointer dereference", instr.Pos())
		}
		s := (*pv).(Struct)
		fr.env[instr] = &s[instr.Field]

	case *ssa.Field:
		fr.env[instr] = fr.get(instr.X).(Struct)[instr.Field]

	case *ssa.IndexAddr:
		fr.env[instr] = e.indexAddr(fr.get(instr.X), fr.get(instr.Index).(*Term), instr.Index.Type(), instr.X.Type(), instr.Pos())

	case *ssa.Index:
		fr.env[instr] = e.index(fr.get(instr.X), fr.get(instr.Index).(*Term), instr.Index.Type(), instr.X.Type(), instr.Pos())

	case *ssa.Lookup:
		fr.env[instr] = e.lookup(instr, fr.get(instr.X), fr.get(instr.Index))

	case *ssa.MapUpdate:
		m := fr.get(instr.Map).(*MapVal)
		if m == nil {
			panic(goPanic{val: Iface{T: e.runtimeErrT, V: "assignment to entry in nil map"}, msg: "assignment to entry in nil map", site: e.pos(instr.Pos())})
		}
		e.mapInsert(m, fr.get(instr.Key), fr.get(instr.Value))

	case *ssa.TypeAssert:
		fr.env[instr] = e.typeAssert(instr, fr.get(instr.X).(Iface))

	case *ssa.MakeClosure:
		var bindings []Value
		for _, b := range instr.Bindings {
			bindings = append(bindings, fr.get(b))
		}
		fr.env[instr] = &Closure{instr.Fn.(*ssa.Function), bindings}

	case *ssa.Phi:
		panic("unexpected phi")

	default:
		panic(fmt.Sprintf("unexpected instruction: %T", instr))
	}
	return kNext
}

// describe renders a value for diagnostics.
func (e *Eng) describe(v Value) string {
	switch v := v.(type) {
	case Iface:
		if v.T == nil {
			return "nil"
		}
		return fmt.Sprintf("%s(%s)", v.T, e.describe(v.V))
	case string:
		return fmt.Sprintf("%q", v)
	case *Term:
		return v.String()
	case *Value:
		if v == nil {
			return "nil-ptr"
		}
		return "&" + e.describe(*v)
	case Struct:
		var sb strings.Builder
		sb.WriteString("{")
		for i, f := range v {
			if i > 0 {
				sb.WriteString(" ")
			}
			if i > 4 {
				sb.WriteString("…")
				break
			}
			sb.WriteString(e.describe(f))
		}
		sb.WriteString("}")
		return sb.String()
	}
	return fmt.Sprintf("%T", v)
}

// memoryExceeded reports whether the checker's heap is above its budget (VERIF_MEM_GB, default 12):
// paths are then abandoned and counted as not explored instead of letting the process be killed.
var memLimit = func() uint64 {
	gb := uint64(12)
	if v := os.Getenv("VERIF_MEM_GB"); v != "" {
		var n uint64
		fmt.Sscanf(v, "%d", &n)
		if n > 0 {
			gb = n
		}
	}
	return gb << 30
}()

var memLast struct {
	sync.Mutex
	t    time.Time
	over bool
}

func memoryExceeded() bool {
	memLast.Lock()
	defer memLast.Unlock()
	if time.Since(memLast.t) < 2*time.Second {
		return memLast.over
	}
	var ms runtime.MemStats
	runtime.ReadMemStats(&ms)
	memLast.t = time.Now()
	memLast.over = ms.HeapAlloc > memLimit
	if memLast.over {
		runtime.GC()
	}
	return memLast.over
}
