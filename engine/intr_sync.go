package main

// sync and sync/atomic for a single-threaded executor: locks are no-ops, atomics are plain loads/stores.

import (
	"fmt"
	"go/token"
)

func init() {
	nop := func(fr *frame, a []Value) Value { return nil }
	for _, n := range []string{"(*sync.Mutex).Lock", "(*sync.Mutex).Unlock", "(*sync.RWMutex).Lock", "(*sync.RWMutex).Unlock",
		"(*sync.RWMutex).RLock", "(*sync.RWMutex).RUnlock", "(*sync.WaitGroup).Add", "(*sync.WaitGroup).Done", "(*sync.WaitGroup).Wait"} {
		intrinsics[n] = nop
	}
	intrinsics["(*sync.Mutex).TryLock"] = func(fr *frame, a []Value) Value { return fr.e.tb.T }
	for _, w := range []string{"Int32", "Int64", "Uint32", "Uint64", "Uintptr"} {
		w := w
		intrinsics["sync/atomic.Load"+w] = func(fr *frame, a []Value) Value { return fr.e.load(nil, a[0], token.NoPos) }
		intrinsics["sync/atomic.Store"+w] = func(fr *frame, a []Value) Value { fr.e.store(nil, a[0], a[1], token.NoPos); return nil }
		intrinsics["sync/atomic.Add"+w] = func(fr *frame, a []Value) Value {
			e := fr.e
			v := e.tb.Add(e.load(nil, a[0], token.NoPos).(*Term), a[1].(*Term))
			e.store(nil, a[0], v, token.NoPos)
			return v
		}
		intrinsics["sync/atomic.Swap"+w] = func(fr *frame, a []Value) Value {
			e := fr.e
			old := e.load(nil, a[0], token.NoPos)
			e.store(nil, a[0], a[1], token.NoPos)
			return old
		}
		intrinsics["sync/atomic.CompareAndSwap"+w] = func(fr *frame, a []Value) Value {
			e := fr.e
			cur := e.load(nil, a[0], token.NoPos).(*Term)
			if e.Decide(e.tb.Eq(cur, a[1].(*Term))) {
				e.store(nil, a[0], a[2], token.NoPos)
				return e.tb.T
			}
			return e.tb.F
		}
	}
	intrinsics["sync/atomic.LoadPointer"] = func(fr *frame, a []Value) Value { return fr.e.load(nil, a[0], token.NoPos) }
	intrinsics["sync/atomic.StorePointer"] = func(fr *frame, a []Value) Value { fr.e.store(nil, a[0], a[1], token.NoPos); return nil }
	_ = fmt.Sprint
}

// sync.Pool: deterministic model of the single-goroutine behaviour of the real pool without the
// race detector: Get returns the item Put most recently (LIFO), else New().  (A pool may return any
// earlier item or a new one; programs must not depend on which.  The reuse case is the one in which
// stale aliases show.)
func init() {
	intrinsics["(*sync.Pool).Get"] = func(fr *frame, a []Value) Value {
		e := fr.e
		p := e.path
		pool, ok := a[0].(*Value)
		if !ok || pool == nil {
			e.throw("invalid memory address or nil pointer dereference", fr.callPos)
		}
		if items := p.pools[pool]; len(items) > 0 {
			it := items[len(items)-1]
			p.pools[pool] = items[:len(items)-1]
			return it
		}
		nf := *e.fieldPtr(pool, e.namedType("sync", "Pool"), "New")
		if nf == nil {
			return Iface{}
		}
		if c, ok := nf.(*Closure); ok && c == nil {
			return Iface{}
		}
		return e.call(fr, fr.callPos, nf, nil)
	}
	intrinsics["(*sync.Pool).Put"] = func(fr *frame, a []Value) Value {
		e := fr.e
		p := e.path
		pool := a[0].(*Value)
		if x, ok := a[1].(Iface); ok && x.T == nil {
			return nil
		}
		if p.pools == nil {
			p.pools = map[*Value][]Value{}
		}
		p.pools[pool] = append(p.pools[pool], a[1])
		return nil
	}
}
