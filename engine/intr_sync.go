package main

// sync and sync/atomic for a single-threaded executor: locks are no-ops, atomics are plain loads/stores.

import (
	"fmt"
	"go/token"
)

func init() {
	nop := func(fr *frame, a []Value) Value { return nil }
	for _, n := range []string{"(*sync.Mutex).Lock", "(*sync.Mutex).Unlock", "(*sync.RWMutex).Lock", "(*sync.RWMutex).Unlock",
		"(*sync.RWMutex).RLock", "(*sync.RWMutex).RUnlock", "(*sync.WaitGroup).Add", "(*sync.WaitGroup).Done", "(*sync.WaitGroup).Wait"} {
		intrinsics[n] = nop
	}
	intrinsics["(*sync.Mutex).TryLock"] = func(fr *frame, a []Value) Value { return fr.e.tb.T }
	for _, w := range []string{"Int32", "Int64", "Uint32", "Uint64", "Uintptr"} {
		w := w
		intrinsics["sync/atomic.Load"+w] = func(fr *frame, a []Value) Value { return fr.e.load(nil, a[0], token.NoPos) }
		intrinsics["sync/atomic.Store"+w] = func(fr *frame, a []Value) Value { fr.e.store(nil, a[0], a[1], token.NoPos); return nil }
		intrinsics["sync/atomic.Add"+w] = func(fr *frame, a []Value) Value {
			e := fr.e
			v := e.tb.Add(e.load(nil, a[0], token.NoPos).(*Term), a[1].(*Term))
			e.store(nil, a[0], v, token.NoPos)
			return v
		}
		intrinsics["sync/atomic.Swap"+w] = func(fr *frame, a []Value) Value {
			e := fr.e
			old := e.load(nil, a[0], token.NoPos)
			e.store(nil, a[0], a[1], token.NoPos)
			return old
		}
		intrinsics["sync/atomic.CompareAndSwap"+w] = func(fr *frame, a []Value) Value {
			e := fr.e
			cur := e.load(nil, a[0], token.NoPos).(*Term)
			if e.Decide(e.tb.Eq(cur, a[1].(*Term))) {
				e.store(nil, a[0], a[2], token.NoPos)
				return e.tb.T
			}
			return e.tb.F
		}
	}
	intrinsics["sync/atomic.LoadPointer"] = func(fr *frame, a []Value) Value { return fr.e.load(nil, a[0], token.NoPos) }
	intrinsics["sync/atomic.StorePointer"] = func(fr *frame, a []Value) Value { fr.e.store(nil, a[0], a[1], token.NoPos); return nil }
	_ = fmt.Sprint
}
