package main

import "sort"

// Property describes the harnesses that decide one property, per tier.
type Property struct {
	Quick       []HarnessSpec
	Thorough    []HarnessSpec
	Bounds      []string
	Outside     []string
	Assumptions []string
}

var registry = map[string]*Property{}

func propIDs() []string {
	var ids []string
	for id := range registry {
		ids = append(ids, id)
	}
	sort.Strings(ids)
	return ids
}

func findSpec(name string) (*HarnessSpec, string) {
	for id, p := range registry {
		for i := range p.Quick {
			if p.Quick[i].Name == name {
				return &p.Quick[i], id
			}
		}
		for i := range p.Thorough {
			if p.Thorough[i].Name == name {
				return &p.Thorough[i], id
			}
		}
	}
	return nil, ""
}

var commonAssumptions = []string{
	"go/packages + go/ssa (x/tools v0.29.0) are a faithful IR of /repo's current working tree; the encoding is regenerated on every run",
	"the executor's instruction semantics and the intrinsics listed under coverage.intrinsics_used model the Go semantics / library contracts (validated by native replay of witnesses and counterexamples)",
	"solver answers (z3 4.8.12 incremental; portfolio of cvc5 --solve-bv-as-int=sum, z3 5.1.0, z3, cvc5 on unknown) are correct; unknown/time-out/error is never counted as success",
}

func init() {
	registry["C08"] = &Property{
		Quick:       []HarnessSpec{{Name: "VC08_AcceptOnlyWellFormed", Params: map[string]int{"vsymC08Max": 92}, ConcAlloc: true, MaxDecisions: 4000, MaxPaths: 60000, TimeoutSec: 400, NeedReach: []string{"accept", "reject", "end"}}},
		Thorough:    []HarnessSpec{{Name: "VC08_AcceptOnlyWellFormed", Params: map[string]int{"vsymC08Max": 140}, ConcAlloc: true, MaxDecisions: 8000, MaxPaths: 2000000, TimeoutSec: 3000, NeedReach: []string{"accept", "reject", "end"}}},
		Bounds:      []string{"input: every byte and the length symbolic, length <= 92 bytes (quick) / 140 (thorough)", "allocation sizes derived from header fields are case-split up to input length + 64; larger ones stay symbolic"},
		Outside:     []string{"inputs longer than the bound (the size arithmetic is length-independent, but that is an argument, not a solver result)"},
		Assumptions: commonAssumptions,
	}
	registry["C07"] = &Property{
		Quick: []HarnessSpec{{Name: "VC07_DecodeEncodeWellFormed", Params: map[string]int{"vsymC07Max": 92}, ConcAlloc: true, MaxDecisions: 4000, MaxPaths: 60000, TimeoutSec: 400, NeedReach: []string{"wellformed", "end"}},
			{Name: "VC07_BuiltRoundTrip", Params: map[string]int{"vsymC09Lists": 2, "vsymC09Entries": 2}, ConcAlloc: true, MaxPaths: 3000000, TimeoutSec: 400, NeedReach: []string{"end"}}},
		Thorough: []HarnessSpec{{Name: "VC07_DecodeEncodeWellFormed", Params: map[string]int{"vsymC07Max": 130}, ConcAlloc: true, MaxDecisions: 8000, MaxPaths: 2000000, TimeoutSec: 3000, NeedReach: []string{"wellformed", "end"}},
			{Name: "VC07_BuiltRoundTrip", Params: map[string]int{"vsymC09Lists": 3, "vsymC09Entries": 2}, ConcAlloc: true, MaxPaths: 3000000, TimeoutSec: 3000, NeedReach: []string{"end"}}},
		Bounds: []string{"well-formed streams (reference recogniser over the raw bytes) of at most 92 bytes (quick) / 130 (thorough): any number and order of X.509, SHA-256 and externally-managed lists, any owners and data",
			"converse: a database satisfying the representation invariant (C09 shapes: 0..2 lists x 1..2 entries quick, 0..3 x 1..2 thorough) after one Append (raw or PEM) or Remove with symbolic arguments encodes to a stream that decodes to an equal database and re-encodes identically"},
		Outside:     []string{"streams longer than the bound, e.g. real certificates (the codec copies data verbatim; only sizes matter)"},
		Assumptions: commonAssumptions,
	}
	registry["C10"] = &Property{
		Quick: []HarnessSpec{
			{Name: "VC10_DescriptorDecodeExact", Params: map[string]int{"vsymC10Max": 100}, ConcAlloc: true, MaxDecisions: 4000, NeedReach: []string{"end", "refused"}},
			{Name: "VC10_WinCertDecodeExact", Params: map[string]int{"vsymC10Max": 100}, ConcAlloc: true, MaxDecisions: 4000, NeedReach: []string{"end"}},
			{Name: "VC10_EncodeDecode", Params: map[string]int{"vsymC10Max": 60}, ConcAlloc: true, MaxDecisions: 4000, NeedReach: []string{"end"}},
		},
		Thorough: []HarnessSpec{
			{Name: "VC10_DescriptorDecodeExact", Params: map[string]int{"vsymC10Max": 400}, ConcAlloc: true, MaxDecisions: 8000, MaxPaths: 2000000, TimeoutSec: 2400, NeedReach: []string{"end"}},
			{Name: "VC10_WinCertDecodeExact", Params: map[string]int{"vsymC10Max": 400}, ConcAlloc: true, MaxDecisions: 8000, MaxPaths: 2000000, TimeoutSec: 1200, NeedReach: []string{"end"}},
			{Name: "VC10_EncodeDecode", Params: map[string]int{"vsymC10Max": 300}, ConcAlloc: true, MaxDecisions: 8000, MaxPaths: 2000000, TimeoutSec: 1200, NeedReach: []string{"end"}},
		},
		Bounds:      []string{"descriptor || payload with every byte symbolic, total length <= 100 (quick) / 400 (thorough); dwLength any value that fits; any timestamp, type GUID, data, payload; revision and certificate type arbitrary: whenever decoding reports success the exactness obligations must hold, and revision 0x0200 / type 0x0EF1 must be accepted", "encode->decode: certificate data 0..60 (quick) / 0..300 bytes, payload 0..24 bytes"},
		Outside:     []string{"certificate data longer than the bound (the codec copies it verbatim)", "malformed descriptors (C14)"},
		Assumptions: commonAssumptions,
	}
	registry["C17"] = &Property{
		Quick: []HarnessSpec{{Name: "VC17_GUID", NeedReach: []string{"end"}}, {Name: "VC17_GUIDCompare", NeedReach: []string{"end"}},
			{Name: "VC17_UTF16", Params: map[string]int{"vsymC17Runes": 3}, MaxDecisions: 2000, NeedReach: []string{"end"}},
			{Name: "VC17_Efistring", Params: map[string]int{"vsymC17Runes": 2}, MaxDecisions: 2000, NeedReach: []string{"end"}}},
		Thorough: []HarnessSpec{{Name: "VC17_GUID", NeedReach: []string{"end"}}, {Name: "VC17_GUIDCompare", NeedReach: []string{"end"}},
			{Name: "VC17_UTF16", Params: map[string]int{"vsymC17Runes": 4}, MaxDecisions: 4000, MaxPaths: 2000000, TimeoutSec: 1800, NeedReach: []string{"end"}},
			{Name: "VC17_Efistring", Params: map[string]int{"vsymC17Runes": 3}, MaxDecisions: 4000, MaxPaths: 2000000, TimeoutSec: 1800, NeedReach: []string{"end"}}},
		Bounds: []string{"GUID: none — all 2^128 values are one symbolic run (four symbolic fields)",
			"UTF-16: strings of 0..3 (quick) / 0..4 symbolic code points (any scalar value except NUL: BMP, non-BMP surrogate pairs, U+FEFF/U+FFFE included); golang.org/x/text is interpreted from source",
			"NUL scan (util.ReadNullString on bytes.Buffer and bytes.Reader) and efivar.Efistring.Unmarshal: the same strings (Efistring 0..2 quick / 0..3 thorough) followed by 3 symbolic bytes: exactly the string with its terminator is consumed and decoded"},
		Outside:     []string{"strings longer than the bound, in particular the 4096-byte transform buffer boundary"},
		Assumptions: commonAssumptions,
	}
	registry["C18"] = &Property{
		Quick:    []HarnessSpec{{Name: "VC18_BootOrderNames", Params: map[string]int{"vsymC18Entries": 3}, NeedReach: []string{"end"}}, {Name: "VC18_LoadOption", NeedReach: []string{"end"}}, {Name: "VC18_LoadOptionStrings", MaxPaths: 200000, TimeoutSec: 600, NeedReach: []string{"end"}}},
		Thorough: []HarnessSpec{{Name: "VC18_BootOrderNames", Params: map[string]int{"vsymC18Entries": 8}, NeedReach: []string{"end"}}, {Name: "VC18_LoadOption", NeedReach: []string{"end"}}, {Name: "VC18_LoadOptionStrings", MaxPaths: 200000, TimeoutSec: 600, NeedReach: []string{"end"}}},
		Bounds: []string{"boot order of 0..3 (quick) / 0..8 entries, all 65 536 values of every entry symbolic",
			"load option from a reference encoder: symbolic attributes, 2-character ASCII description, one node of each supported kind in a fixed order (PCI, ACPI, hard drive MBR/GPT with signature type 1/2, USB, firmware file, file path of 2 characters, end) with symbolic field values; partition number 1..99, start/size below 2^16 (bounds the hex rendering forks); text forms of the hard-drive and file-path nodes compared byte for byte",
			"non-ASCII text: description and path name of two UTF-16 code units each, every BMP scalar value except NUL, in a load option with a file-path node, the path optionally preceded by 130 fixed characters (node longer than 255 bytes) (VC18_LoadOptionStrings)"},
		Outside:     []string{"longer boot orders (entries are decoded independently)", "other node orders and repeated nodes, descriptions and paths longer than 2 characters, partition start/size of 2^16 and more", "resolution of names through the boot-entry accessor (GetBootEntry opens <efivars>/<name>-<guid>: covered by C11's path assertion for arbitrary names)"},
		Assumptions: commonAssumptions,
	}
	c14 := func(name string, max int, extra map[string]int) HarnessSpec {
		p := map[string]int{"vsymC14Max": max}
		for k, v := range extra {
			p[k] = v
		}
		return HarnessSpec{Name: name, Params: p, ConcAlloc: true, OpaqueFmt: true, MaxDecisions: 4000, MaxPaths: 400000, TimeoutSec: 300, NeedReach: []string{"end"}}
	}
	c14t := func(name string, max int, extra map[string]int) HarnessSpec {
		h := c14(name, max, extra)
		h.MaxDecisions, h.MaxPaths, h.TimeoutSec = 8000, 4000000, 240
		return h
	}
	registry["C14"] = &Property{
		Quick: []HarnessSpec{
			c14("VC14_SignatureDatabase", 64, nil), c14("VC14_SignatureDatabaseUnmarshal", 64, nil), c14("VC14_SignatureList", 64, nil),
			c14("VC14_AuthDescriptor", 64, nil), c14("VC14_AuthDescriptorUnmarshal", 64, nil), c14("VC14_WinCertificate", 64, nil),
			c14("VC14_WinCertificateUEFIGUID", 64, nil), c14("VC14_SupportedSignatures", 64, nil),
			c14("VC14_ParseUtf16Var", 10, nil), c14("VC14_ReadNullString", 16, nil), c14("VC14_BytesToGUID", 24, nil), c14("VC14_StringToGUID", 0, nil),
			c14("VC14_LoadOption", 22, map[string]int{"vsymC14Path": 6}), c14("VC14_DevicePath", 14, nil), c14("VC14_MediaNode", 0, map[string]int{"vsymC14Path": 8}),
			c14("VC14_Efistring", 10, nil), c14("VC14_BootOrder", 16, nil), c14("VC14_Efibool", 4, nil), c14("VC14_ParseEfivars", 32, nil),
			c14("VC14_ReadKey", 0, nil),
		},
		Thorough: []HarnessSpec{
			c14t("VC14_SignatureDatabase", 128, nil), c14t("VC14_SignatureDatabaseUnmarshal", 128, nil), c14t("VC14_SignatureList", 128, nil),
			c14t("VC14_AuthDescriptor", 160, nil), c14t("VC14_AuthDescriptorUnmarshal", 160, nil), c14t("VC14_WinCertificate", 160, nil),
			c14t("VC14_WinCertificateUEFIGUID", 160, nil), c14t("VC14_SupportedSignatures", 160, nil),
			c14t("VC14_ParseUtf16Var", 14, nil), c14t("VC14_ReadNullString", 40, nil), c14t("VC14_BytesToGUID", 40, nil), c14t("VC14_StringToGUID", 0, nil),
			c14t("VC14_LoadOption", 24, map[string]int{"vsymC14Path": 6}), c14t("VC14_DevicePath", 16, nil), c14t("VC14_MediaNode", 0, map[string]int{"vsymC14Path": 12}),
			c14t("VC14_Efistring", 14, nil), c14t("VC14_BootOrder", 64, nil), c14t("VC14_Efibool", 8, nil), c14t("VC14_ParseEfivars", 96, nil),
			c14t("VC14_ReadKey", 0, nil),
		},
		Bounds: []string{"thorough tier: the same harnesses with inputs up to 128 bytes (signature database / list), 160 (descriptor, WIN_CERTIFICATE, supported signatures), 14 (UTF-16), 24 (load option), 16 (device path), 96 (variable file), 240 s per harness (a harness that reaches the limit reports the paths left as not explored)", "one harness per decoder entry point, every input byte and the length symbolic (length case-split): signature database/list, auth descriptor, WIN_CERTIFICATE(_UEFI_GUID), supported signatures <= 64 bytes; UTF-16 decoders <= 10 bytes; load option <= 22 bytes with description <= 3 code units; device path <= 14 bytes (three nodes); media node <= 44 bytes (file path <= 8); GUID text: canonical layout with 3 symbolic characters (one a separator position), and any text <= 4 chars; variable file <= 32 bytes with an independent symbolic stat size; PEM key decoder on PKCS#8 keys of every kind the standard library returns, a non-key PEM block and non-PEM text",
			"obligations on every path: no panic, no log.Fatal/os.Exit, every make([]byte,n) <= 8*len+8192, termination within the unwinding bounds"},
		Outside:     []string{"inputs longer than the bounds", "wall-clock time and resident memory as measured quantities (replaced by unwinding bounds and allocation-size obligations)", "PEM certificate files, and key files beyond the kinds below (encoding/pem and crypto/x509 are not interpreted: pem.Decode is modelled, x509.ParsePKCS8PrivateKey is an environment stub returning a key of each documented type — RSA, ECDSA, Ed25519, X25519 — or an error; natively real keys of those kinds are generated)", "formatted text (fmt.Sprintf is opaque in these harnesses)"},
		Assumptions: commonAssumptions,
	}
	c01 := func(nsec, plus, lfanew, nonEmpty, timeout int) HarnessSpec {
		return HarnessSpec{Name: "VC01_DigestEqualsSpec", Params: map[string]int{"vsymC01Nsec": nsec, "vsymC01Plus": plus, "vsymC01Lfanew": lfanew, "vsymC01NonEmpty": nonEmpty & 1, "vsymC01NoCert": nonEmpty >> 1},
			MaxDecisions: 1000, MaxPaths: 5000, TimeoutSec: timeout, NeedReach: []string{"wellformed", "parsed", "end"}}
	}
	registry["C01"] = &Property{
		Quick: []HarnessSpec{c01(1, 1, 0x80, 0, 300), c01(1, 0, 0x40, 0, 300), c01(2, 1, 0x80, 3, 600),
			{Name: "VC01_MultiReadAt", Params: map[string]int{"vsymC01Parts": 2}, TimeoutSec: 300, NeedReach: []string{"end"}},
			{Name: "VC01_Coverage", MaxDecisions: 2000, TimeoutSec: 300, NeedReach: []string{"covered", "excluded", "end"}},
			{Name: "VC01_DigestIgnoresHistory", MaxDecisions: 2000, TimeoutSec: 300, NeedReach: []string{"end"}}},
		Thorough: []HarnessSpec{c01(0, 1, 0x80, 0, 600), c01(1, 1, 0x80, 0, 600), c01(1, 0, 0x40, 0, 600), c01(1, 1, 0xf8, 0, 600), c01(2, 1, 0x80, 0, 900), c01(2, 0, 0x80, 0, 900),
			{Name: "VC01_MultiReadAt", Params: map[string]int{"vsymC01Parts": 3}, TimeoutSec: 600, NeedReach: []string{"end"}},
			{Name: "VC01_Coverage", MaxDecisions: 2000, TimeoutSec: 600, NeedReach: []string{"covered", "excluded", "end"}},
			{Name: "VC01_DigestIgnoresHistory", MaxDecisions: 2000, TimeoutSec: 300, NeedReach: []string{"end"}}},
		Bounds: []string{"history independence (shipped image): its digest before and after another image with a 13-byte certificate and arbitrary alignment bytes has been parsed, listed, re-serialised and hashed in the same process", "symbolic image: length <= 2^24 and every byte symbolic; SizeOfHeaders, every section's PointerToRawData/SizeOfRawData (any header order, zero-size sections, gaps), certificate directory (absent or at the end, 8-aligned), trailing data and file length mod 8 all symbolic",
			"shape (enumerated): sections 1..2 (quick; the two-section shape with raw data in both and no certificate table) / 0..2 in all variants (thorough), PE32 and PE32+, NumberOfRvaAndSizes=16, e_lfanew in {0x40,0x80} (quick) + 0xf8 (thorough), machine AMD64",
			"positional reader lemma: 2 (quick) / 3 parts of symbolic content and size <= 2^20 each, any offset <= 2^23 and request length <= 2^22",
			"coverage on the shipped test image (unsigned and with an appended table): one byte changed, position symbolic within each 512-byte section window / every checksum byte / every 4th table byte, value symbolic: digest changes iff covered",
			"oracle: SHA-256 of the byte string of steps 3-14 of the Microsoft Authenticode specification, built in the harness from the raw bytes (not through debug/pe); equality decided through the hash model (functional consistency) and structural equality of the two byte strings"},
		Outside:     []string{"more sections than the bound, images of 16 MiB and more, COFF symbol tables, relocations, string-table section names, other NumberOfRvaAndSizes", "per-position coverage is decided on the shipped test image only (section bytes with symbolic position, checksum bytes, certificate-table bytes); header positions and the directory entry follow from the symbolic oracle equality plus collision resistance"},
		Assumptions: append([]string{"SHA-256 is modelled as an uninterpreted function with functional consistency; real SHA-256 is used on concrete inputs and in native replays"}, commonAssumptions...),
	}
	c03 := func(name string, nsec, plus, appends, timeout int) HarnessSpec {
		return HarnessSpec{Name: name, Params: map[string]int{"vsymC01Nsec": nsec, "vsymC01Plus": plus, "vsymC01Lfanew": 0x80, "vsymC03Appends": appends},
			MaxDecisions: 1000, MaxPaths: 5000, TimeoutSec: timeout, NeedReach: []string{"end"}}
	}
	registry["C03"] = &Property{
		Quick:    []HarnessSpec{c03("VC03_AppendLayout", 1, 1, 1, 400), c03("VC03_AppendLayout", 1, 0, 1, 400), c03("VC03_AppendTwice", 1, 1, 2, 400), {Name: "VC03_SignVerify", MaxDecisions: 2000, TimeoutSec: 300, NeedReach: []string{"end"}}},
		Thorough: []HarnessSpec{c03("VC03_AppendLayout", 0, 1, 1, 600), c03("VC03_AppendLayout", 1, 1, 1, 600), c03("VC03_AppendLayout", 1, 0, 1, 600), c03("VC03_AppendLayout", 2, 1, 1, 1200), c03("VC03_AppendTwice", 1, 1, 3, 900), {Name: "VC03_SignVerify", MaxDecisions: 2000, TimeoutSec: 600, NeedReach: []string{"end"}}},
		Bounds: []string{"sign/verify histories on the shipped test image under the signature model: sign, serialise, re-parse (digest unchanged, embedded digest equal, verifies for the signer, not for another certificate), sign again with another key on the re-parsed image (both verify, a third certificate does not, two table entries); serials symbolic",
			"symbolic well-formed image as in C01 (1 section quick; 0..2 thorough; PE32/PE32+), with or without an existing certificate table of arbitrary content; signature bytes and length symbolic (0..65536, every length mod 8)",
			"decided: output bytes = every original byte except the directory entry, zero padding to 8, old table, new WIN_CERTIFICATE (dwLength=8+len, revision 0x0200, type 0x0002, data, padding to 8); directory entry = (padded length or old address, table size) and spans to end of file; 2 (quick) / 3 in-memory appends"},
		Outside:     []string{"re-parse digest equality for symbolic images (decided on the fixture only; the specification-level lemma 'specified signed file is well-formed and keeps the specification digest' was attempted and is undecided by the solvers within 20 s per query: harness VC03_SignedIsWellFormed is kept but not registered)", "acceptance by real firmware"},
		Assumptions: commonAssumptions,
	}
	c09 := func(name string, lists, entries, timeout int, reach ...string) HarnessSpec {
		return HarnessSpec{Name: name, Params: map[string]int{"vsymC09Lists": lists, "vsymC09Entries": entries}, MaxPaths: 3000000, TimeoutSec: timeout, NeedReach: reach}
	}
	registry["C09"] = &Property{
		Quick:    []HarnessSpec{c09("VC09_Append", 2, 2, 300, "append-ok", "append-error", "end"), c09("VC09_Remove", 2, 2, 300, "remove-ok", "remove-error", "end"), c09("VC09_Remove", 1, 3, 300, "remove-ok", "remove-error", "end"), c09("VC09_Append", 1, 3, 300, "append-ok", "append-error", "end"), c09("VC09_Membership", 2, 1, 300, "end")},
		Thorough: []HarnessSpec{c09("VC09_Append", 3, 2, 3000, "append-ok", "append-error", "end"), c09("VC09_Remove", 3, 2, 3000, "remove-ok", "remove-error", "end"), c09("VC09_Membership", 2, 2, 3000, "end")},
		Bounds: []string{"one operation (Append / Remove / BytesExists / SigDataExists) with symbolic arguments from an arbitrary valid pre-state: 0..2 lists x 1..2 entries and 0..1 list x 1..3 entries (quick; membership 1 entry per list) / 0..3 x 1..2 (thorough), list kinds SHA-256, X.509 of 3/4/59 bytes, SHA-1; argument types SHA-256, X.509, SHA-1, unknown GUID; data lengths 32, 3, 4, 33, 20, 59; X.509 data raw or as PEM text (vsym.PEMOf); owners and data symbolic; both in-memory forms of the empty signature header (nil as the decoder leaves it, empty as the constructor makes it); an append of an entry already in the first list of its type and size must report an error",
			"pre-state invariant Inv: ListSize = 28 + n*Size, every entry has Size bytes, n >= 1, no duplicate inside a list; histories of any length follow by induction on the step, the empty database is the base case"},
		Outside:     []string{"AppendList / AppendDatabase and the list-level API (SignatureList.AppendBytes on a list of another size)", "duplicates across two lists of equal type and size (the statement is read per list)", "real certificates (data is opaque bytes)"},
		Assumptions: append([]string{"encoding/pem.Decode is modelled: PEM inputs are introduced with vsym.PEMOf (decode to their DER bytes), other symbolic data is assumed not to be PEM text; native replays use the real encoding/pem"}, commonAssumptions...),
	}
	registry["C19"] = &Property{
		Quick: []HarnessSpec{
			{Name: "VC19_ImageReadOnly", Params: map[string]int{"vsymC01Nsec": 1, "vsymC01Plus": 1, "vsymC01Lfanew": 0x80, "vsymC01NoCert": 1, "vsymC19Signed": 1}, MaxDecisions: 1500, TimeoutSec: 400, NeedReach: []string{"end"}},
			{Name: "VC19_DatabaseReadOnly", Params: map[string]int{"vsymC09Lists": 2, "vsymC09Entries": 1}, MaxPaths: 3000000, TimeoutSec: 300, NeedReach: []string{"end"}},
			{Name: "VC19_SignedUpdateReadOnly", Params: map[string]int{"vsymC19Len": 4096}, NeedReach: []string{"end"}},
			{Name: "VC19_DescriptorReadOnly", Params: map[string]int{"vsymC19Len": 64}, ConcAlloc: true, MaxDecisions: 4000, NeedReach: []string{"end"}},
		},
		Thorough: []HarnessSpec{
			{Name: "VC19_ImageReadOnly", Params: map[string]int{"vsymC01Nsec": 1, "vsymC01Plus": 1, "vsymC01Lfanew": 0x80, "vsymC01NoCert": 1, "vsymC19Signed": 1}, MaxDecisions: 1500, TimeoutSec: 600, NeedReach: []string{"end"}},
			{Name: "VC19_ImageReadOnly", Params: map[string]int{"vsymC01Nsec": 1, "vsymC01Plus": 0, "vsymC01Lfanew": 0x40, "vsymC01NoCert": 1, "vsymC19Signed": 0}, MaxDecisions: 1500, TimeoutSec: 600, NeedReach: []string{"end"}},
			{Name: "VC19_ImageReadOnly", Params: map[string]int{"vsymC01Nsec": 2, "vsymC01Plus": 1, "vsymC01Lfanew": 0x80, "vsymC01NoCert": 1, "vsymC01NonEmpty": 1, "vsymC19Signed": 1}, MaxDecisions: 1500, TimeoutSec: 3000, NeedReach: []string{"end"}},
			{Name: "VC19_DatabaseReadOnly", Params: map[string]int{"vsymC09Lists": 2, "vsymC09Entries": 2}, MaxPaths: 3000000, TimeoutSec: 3000, NeedReach: []string{"end"}},
			{Name: "VC19_SignedUpdateReadOnly", Params: map[string]int{"vsymC19Len": 1 << 16}, NeedReach: []string{"end"}},
			{Name: "VC19_DescriptorReadOnly", Params: map[string]int{"vsymC19Len": 160}, ConcAlloc: true, MaxDecisions: 4000, TimeoutSec: 1200, NeedReach: []string{"end"}},
		},
		Bounds: []string{"parsed symbolic image (C01 shape, 1 section, no pre-existing table, two appended signatures of fixed lengths 5 and 8): Hash, Bytes, Signatures, Open+drain twice in both orders; database of C09 shapes: Bytes, Marshal, BytesExists, SigDataExists, Exists twice in both orders; signed-update wrapper value with symbolic content <= 4096 bytes; decoded descriptor <= 64 bytes",
			"repeatability: results equal (decided by SMT / structural byte-string equality)", "purity: the executor's write log contains no store into any slot, buffer or map reachable from the object (and the caller's reader) before the calls; evidence.reached shows 'readonly:*' for every path"},
		Outside:     []string{"goroutine interleavings in general: concurrency safety is concluded through the sufficient condition 'the operations store nothing into state that existed before the calls' (then every interleaving is race-free and returns the sequential results); when the executor finds such a store, the path's inputs are replayed natively under the Go race detector with every operation run twice from separate goroutines (vsym.Concurrent): a detector report is a VIOLATION, silence is reported as UNDECIDED, not as success", "Verify (needs the PKCS#7 model)"},
		Assumptions: commonAssumptions,
	}
	registry["C11"] = &Property{
		Quick: []HarnessSpec{
			{Name: "VC11_WriteTrace", Params: map[string]int{"vsymC11Name": 4, "vsymC11Value": 4096}, NeedReach: []string{"end"}},
			{Name: "VC11_Read", Params: map[string]int{"vsymC11Name": 4, "vsymC11Value": 4096}, NeedReach: []string{"end", "absent", "short", "wrongattrs"}},
			{Name: "VC11_Predefined", NeedReach: []string{"end"}},
			{Name: "VC11_LegacyWriteRead", Params: map[string]int{"vsymC11Name": 4, "vsymC11Value": 4096}, NeedReach: []string{"end", "probe-error"}},
			{Name: "VC11_LegacySequence", NeedReach: []string{"end"}},
			{Name: "VC11_LegacyNamed", NeedReach: []string{"end"}},
			{Name: "VC11_WriteSequence", Params: map[string]int{"vsymC11Name": 2, "vsymC11Value": 8}, NeedReach: []string{"end"}},
		},
		Thorough: []HarnessSpec{
			{Name: "VC11_LegacyWriteRead", Params: map[string]int{"vsymC11Name": 8, "vsymC11Value": 1 << 16}, NeedReach: []string{"end", "probe-error"}},
			{Name: "VC11_WriteTrace", Params: map[string]int{"vsymC11Name": 8, "vsymC11Value": 1 << 16}, NeedReach: []string{"end"}},
			{Name: "VC11_Read", Params: map[string]int{"vsymC11Name": 8, "vsymC11Value": 1 << 16}, NeedReach: []string{"end", "absent", "short", "wrongattrs"}},
			{Name: "VC11_Predefined", NeedReach: []string{"end"}},
			{Name: "VC11_LegacySequence", NeedReach: []string{"end"}},
			{Name: "VC11_LegacyNamed", NeedReach: []string{"end"}},
			{Name: "VC11_WriteSequence", Params: map[string]int{"vsymC11Name": 2, "vsymC11Value": 64}, NeedReach: []string{"end"}},
		},
		Bounds: []string{"object API (EFIFS.WriteVar / GetVarWithAttributes over fswrapper): symbolic GUID (all 2^128), symbolic 32-bit attribute mask, name = 4 (quick) / 8 symbolic ASCII letters or digits, value / stored file = symbolic bytes of symbolic length <= 4096 (quick) / 65536; every predefined variable definition by name",
			"file system = recording afero.Fs written in the harness (interpreted): the complete operation trace is asserted",
			"legacy package-level API (efi/attributes.WriteEfivarsWithGuid / ReadEfivarsWithGuid over efi/fs): same trace assertions and read-back, same symbolic inputs",
			"name-based legacy wrappers (WriteEfivars / ReadEfivars) for 17 variable names (the four image security databases, PK, KEK, the *Default copies, boot variables, near-miss names): the vendor GUID in the path is the one the UEFI specification assigns to that name", "histories of two writes (both APIs): independent symbolic attribute masks and values; the second write's open mode and buffer depend on its own arguments only"},
		Outside:     []string{"the immutable-flag ioctl of the legacy API is an OS stub (any flag word or error); the attribute-checked typed readers of package efi (GetPK, ...) are not harnessed", "efivars directories other than the default", "names with characters outside [A-Za-z0-9] (path.Clean is interpreted; such characters are excluded by assumption)"},
		Assumptions: commonAssumptions,
	}
	registry["C12"] = &Property{
		Quick: []HarnessSpec{{Name: "VC12_PlainRegister", Params: map[string]int{"vsymC12Max": 8}, MaxPaths: 200000, NeedReach: []string{"end"}},
			{Name: "VC12_SignedRegister", Params: map[string]int{"vsymC12Max": 6}, ConcAlloc: true, MaxPaths: 200000, NeedReach: []string{"end"}}},
		Thorough: []HarnessSpec{{Name: "VC12_PlainRegister", Params: map[string]int{"vsymC12Max": 40}, MaxPaths: 2000000, TimeoutSec: 3000, NeedReach: []string{"end"}},
			{Name: "VC12_SignedRegister", Params: map[string]int{"vsymC12Max": 100}, ConcAlloc: true, MaxPaths: 2000000, TimeoutSec: 3000, NeedReach: []string{"end"}}},
		Bounds: []string{"inductive step on the in-memory store (real afero.MemMapFs interpreted): variable A holds an arbitrary previous value, variable B an arbitrary value; one plain WriteVar of a value of any length 0..8 (quick) / 0..40 bytes (all length combinations case-split, contents symbolic); read of A returns exactly the new value, B unchanged",
			"signed step: PK / KEK / db / dbx holding an arbitrary previous value (0..6 bytes quick / 0..100); one WriteSignedUpdate (real SignEFIVariable and SignPKCS7 under the signature model) of a database with 0, 1 or 2 SHA-256 entries (symbolic), optionally after an earlier signed update of another variable in the same process; the typed read returns the payload with the descriptor removed"},
		Outside:     []string{"APPEND_WRITE", "values longer than the bound", "signed payloads other than databases of 0..2 SHA-256 entries"},
		Assumptions: commonAssumptions,
	}
	registry["C15"] = &Property{
		Quick: []HarnessSpec{
			{Name: "VC15_WriteFaults", Params: map[string]int{"vsymC11Name": 2, "vsymC11Value": 4096}, NeedReach: []string{"end", "faulted", "clean"}},
			{Name: "VC15_ReadFaults", Params: map[string]int{"vsymC11Name": 2, "vsymC11Value": 4096}, NeedReach: []string{"end", "faulted"}},
			{Name: "VC15_SignerFault", NeedReach: []string{"end", "failed", "signed"}},
			{Name: "VC15_SignedUpdateFaults", Params: map[string]int{"vsymC11Name": 2}, NeedReach: []string{"end", "signer-failed", "ok"}},
			{Name: "VC15_ImageSignFault", NeedReach: []string{"end", "signer-failed", "signed"}},
			{Name: "VC15_ImageReaderFault", NeedReach: []string{"end", "faulted", "clean"}},
			{Name: "VC15_VerifyReaderFault", NeedReach: []string{"end", "verify-faulted", "verify-clean", "hash-faulted"}},
			{Name: "VC15_LegacyWriteFaults", NeedReach: []string{"end", "faulted", "clean"}},
			{Name: "VC15_LegacyReadFaults", NeedReach: []string{"end", "faulted"}},
			{Name: "VC15_ShortReads", Params: map[string]int{"vsymC11Name": 2}, NeedReach: []string{"end", "ok", "short"}},
			{Name: "VC15_LegacyShortReads", NeedReach: []string{"end", "ok", "short"}},
		},
		Thorough: []HarnessSpec{
			{Name: "VC15_WriteFaults", Params: map[string]int{"vsymC11Name": 6, "vsymC11Value": 1 << 16}, NeedReach: []string{"end", "faulted", "clean"}},
			{Name: "VC15_ReadFaults", Params: map[string]int{"vsymC11Name": 6, "vsymC11Value": 1 << 16}, NeedReach: []string{"end", "faulted"}},
			{Name: "VC15_SignerFault", NeedReach: []string{"end", "failed", "signed"}},
			{Name: "VC15_SignedUpdateFaults", Params: map[string]int{"vsymC11Name": 2}, NeedReach: []string{"end", "signer-failed", "ok"}},
			{Name: "VC15_ImageSignFault", NeedReach: []string{"end", "signer-failed", "signed"}},
			{Name: "VC15_ImageReaderFault", NeedReach: []string{"end", "faulted", "clean"}},
			{Name: "VC15_VerifyReaderFault", NeedReach: []string{"end", "verify-faulted", "verify-clean", "hash-faulted"}},
			{Name: "VC15_LegacyWriteFaults", Params: map[string]int{"vsymC15Value": 4096}, NeedReach: []string{"end", "faulted", "clean"}},
			{Name: "VC15_LegacyReadFaults", Params: map[string]int{"vsymC15Value": 4096}, NeedReach: []string{"end", "faulted"}},
			{Name: "VC15_ShortReads", Params: map[string]int{"vsymC11Name": 2}, NeedReach: []string{"end", "ok", "short"}},
			{Name: "VC15_LegacyShortReads", NeedReach: []string{"end", "ok", "short"}},
		},
		Bounds: []string{"thorough tier: names of 6 characters, values up to 65536 bytes (legacy API 4096)", "write variable: every position of the call sequence OpenFile / Write / Close may fail (symbolic fault bits, all combinations), and Write may be short by any symbolic count; read variable: Open / Stat / every Read may fail", "short reads (the file delivers 4..12 stored bytes in up to two short reads without an error, both APIs): the read fails or returns exactly the stored attributes and value", "asserted: any injected fault => non-nil error, nothing decoded after a failed read; the same for the legacy package-level writer and reader of efi/attributes (values <= 16 bytes)",
			"signer: Sign may fail (symbolic fault bit) in SignPKCS7 (3 content types), in PECOFFBinary.Sign on the shipped test image (error, no signature returned, Signatures() and Bytes() unchanged) and in WriteSignedUpdate combined with all file-system faults (failed signing writes nothing)",
			"image reader: every one of the ReadAt calls Parse issues on the shipped test image may fail: error and no parsed object; during Parse a failing ReadAt may deliver 0 or any smaller number of bytes together with its error; on a doubly signed image every ReadAt call of Verify and Hash may fail (all combinations): never success, error reported, no digest"},
		Outside:     []string{"a failing Close after a complete read is not asserted (it does not invalidate the data read)", "images other than the shipped unsigned test image for the image-level fault harnesses (the image is concrete there; the fault positions are symbolic)"},
		Assumptions: commonAssumptions,
	}
	registry["C05"] = &Property{
		Quick:    []HarnessSpec{{Name: "VC05_DERvsReference", Params: map[string]int{"vsymC05Content": 140, "vsymC05Serial": 2, "vsymC05RawLens": 2}, MaxDecisions: 2000, MaxPaths: 400000, TimeoutSec: 400, NeedReach: []string{"end"}}},
		Thorough: []HarnessSpec{{Name: "VC05_DERvsReference", Params: map[string]int{"vsymC05Content": 700, "vsymC05Serial": 4, "vsymC05RawLens": 3}, MaxDecisions: 4000, MaxPaths: 4000000, TimeoutSec: 7200, NeedReach: []string{"end"}}},
		Bounds: []string{"content: every length 0..140 (quick) / 0..700 (thorough), bytes symbolic; content types data, SpcIndirectDataContent, 1.2.3.4, a 17-octet and a 34-octet OID (attribute set in DER order differs from the fixed order; attribute set longer than 127 bytes); certificate bytes of 5/140 (+300 thorough) symbolic bytes; issuer 3 symbolic bytes (copied verbatim); serial magnitudes of 1 and 20 (+2, 8 thorough) symbolic bytes incl. high bit set; the output is also parsed and verified by the library itself; clock symbolic (2001..2049)",
			"oracle: reference RFC 2315 / X.690 encoder written in the harness (minimal definite lengths, INTEGER with sign octet, attribute SET OF = contentType, signingTime, messageDigest = SHA-256(content) ordered by encoding (X.690 11.6), signature = Sign(key, SHA-256(SET))): output compared byte for byte"},
		Outside:     []string{"that OpenSSL / other implementations agree with this reading of RFC 2315 (they are not Go code the engine can execute)", "contents longer than the bound (all DER length classes up to 0x82 are inside the thorough bound)", "RSA key sizes other than 2048 (the signature is an opaque 256-byte string in the model)", "clock in 2050 or later: the attribute encoder panics (UTCTime range) — assumed away, see DESIGN.md"},
		Assumptions: append([]string{"signature model: Sign(key, digest) is deterministic and injective per key; SHA-256 as in C01", "time model: calendar fields are uninterpreted functions of the instant, years 1950..2049"}, commonAssumptions...),
	}
	registry["C06"] = &Property{
		Quick: []HarnessSpec{{Name: "VC06_SignedUpdateLayout", Params: map[string]int{"vsymC06Name": 3, "vsymC06Payload": 40}, MaxDecisions: 2000, NeedReach: []string{"end"}},
			{Name: "VC06_WrittenUpdateBinding", Params: map[string]int{"vsymC11Name": 2, "vsymC06Payload": 8}, MaxDecisions: 2000, NeedReach: []string{"end"}},
			{Name: "VC06_SignedUpdateLayout", Params: map[string]int{"vsymC06Name": 1, "vsymC06Payload": 1, "vsymC06RawLen": 66000}, MaxDecisions: 2000, TimeoutSec: 300, NeedReach: []string{"end"}}},
		Thorough: []HarnessSpec{{Name: "VC06_SignedUpdateLayout", Params: map[string]int{"vsymC06Name": 8, "vsymC06Payload": 300}, MaxDecisions: 4000, MaxPaths: 400000, TimeoutSec: 3000, NeedReach: []string{"end"}},
			{Name: "VC06_WrittenUpdateBinding", Params: map[string]int{"vsymC11Name": 4, "vsymC06Payload": 64}, MaxDecisions: 4000, TimeoutSec: 1200, NeedReach: []string{"end"}},
			{Name: "VC06_SignedUpdateLayout", Params: map[string]int{"vsymC06Name": 1, "vsymC06Payload": 8, "vsymC06RawLen": 66000}, MaxDecisions: 2000, TimeoutSec: 900, NeedReach: []string{"end"}}},
		Bounds: []string{"name: 3 (quick) / 8 symbolic printable ASCII characters; GUID: all 2^128; attribute mask: all 2^32 (APPEND_WRITE on and off); payload: every length 0..40 (quick) / 0..300, bytes symbolic; clock symbolic; process time zone symbolic (UTC-12..UTC+14, whole hours)",
			"one instance with a signing certificate of 66000 symbolic bytes (natively a real certificate with an opaque extension of that size): the SignedData and dwLength exceed 64 KiB (name 1 character, payload 0..1 / 0..8)", "through Efivarfs.WriteSignedUpdate on the recording file system (name 2 / 4 letters or digits, payload 0..8 / 0..64): one write of attributes || descriptor || payload, and the message digest signed inside the descriptor is the SHA-256 of name || GUID || the attributes written || descriptor timestamp || payload",
			"decided: output = 16-byte timestamp (UTC calendar fields of the clock, other fields zero) || dwLength=24+len(SignedData), revision 0x0200, type 0x0EF1, PKCS7 type GUID in wire order || bare detached SignedData equal byte for byte to the reference encoding over UTF-16LE(name)||GUID||attrs||timestamp||payload || payload"},
		Outside:     []string{"non-ASCII names", "acceptance by real firmware", "payload kinds beyond raw bytes (a database payload is its encoding, C07)"},
		Assumptions: append([]string{"signature, hash and time models as in C05; native replays run with TZ set from the model (Etc/GMT±h)"}, commonAssumptions...),
	}
	registry["C02"] = &Property{
		Quick:    []HarnessSpec{{Name: "VC02_SignedImage", Params: map[string]int{"vsymC02Stride": 64, "vsymC02Regions": 3}, MaxDecisions: 2000, TimeoutSec: 600, NeedReach: []string{"complete", "end"}}},
		Thorough: []HarnessSpec{{Name: "VC02_SignedImage", Params: map[string]int{"vsymC02Stride": 8, "vsymC02Regions": 3}, MaxDecisions: 4000, MaxPaths: 400000, TimeoutSec: 1500, NeedReach: []string{"complete", "end"}}},
		Bounds: []string{"the shipped unsigned test image (concrete, 3825 bytes, 5 sections), signed by the library under the signature model with a symbolic serial; verified against the signer (must succeed), against another key under the same issuer and serial, and against an unrelated certificate (must not)",
			"single-byte changes with symbolic value: every position of the section data (position symbolic per 512-byte window); each of the 32 bytes of the embedded image digest; the composed forgery (a section byte changed, the embedded digest rewritten to the changed image's digest, the SignerInfo digest algorithm optionally relabelled to SHA-384); issuer/serial bytes (all), signed-attribute bytes (stride 8) and signature bytes (stride 64) inside the SignerInfo; thorough uses stride 1 (attributes) / 8 (signature)",
			"decided: Verify(cert) is not true for any of these mutants (collision resistance of SHA-256 stated exactly for equal-length inputs; unforgeability of the signature model)"},
		Outside:     []string{"multi-byte edits other than those composed by C04's unit harness", "images other than the fixture (C01 shows the digest is the specification's for symbolic images)", "unauthenticated parts of the blob (certificate bag, versions, algorithm identifiers): changes there may still verify and are not asserted", "header-byte mutations that redirect debug/pe into symbolic offsets of the concrete image are reported as unsupported paths, not as held"},
		Assumptions: append([]string{"signature model: only signatures produced by Sign on the path verify; all certificates are issued by one test CA (issuer name CN=<7 symbolic letters>, identical natively); certificates for different keys differ in serial unless made by CertSameID", "SHA-256 model with functional consistency and collision resistance (exact between inputs of equal concrete length; inputs of different lengths have different digests)"}, commonAssumptions...),
	}
	registry["C04"] = &Property{
		Quick: []HarnessSpec{{Name: "VC04_VerifySound", Params: map[string]int{"vsymC04Signers": 2}, MaxDecisions: 2000, TimeoutSec: 600, NeedReach: []string{"honest-verifies", "accepted", "rejected", "end"}},
			{Name: "VC04_AttributeBytes", MaxDecisions: 2000, NeedReach: []string{"end"}},
			{Name: "VC04_ParsedBlobBinding", MaxDecisions: 2000, NeedReach: []string{"end"}}},
		Thorough: []HarnessSpec{{Name: "VC04_VerifySound", Params: map[string]int{"vsymC04Signers": 3}, MaxDecisions: 4000, MaxPaths: 2000000, TimeoutSec: 3600, NeedReach: []string{"honest-verifies", "accepted", "rejected", "end"}},
			{Name: "VC04_AttributeBytes", MaxDecisions: 2000, NeedReach: []string{"end"}},
			{Name: "VC04_ParsedBlobBinding", MaxDecisions: 2000, NeedReach: []string{"end"}}},
		Bounds: []string{"thorough tier: 1..3 signer entries", "DER level: a pkcs7-data blob in the third-party producer language with attached content (4 symbolic bytes) other than the content that was digested and signed parses but does not verify; the honest one verifies", "attribute bytes: the three standard attributes signed in any of the 6 orders and placed in the blob (built by the reference encoder, content attached) in any of the 6 orders: Verify is true iff the orders agree",
			"unit level: the parsed SignedData is arbitrary — 1..2 signer entries with symbolic issuer, serial, content type, 32-byte message digest and 256-byte signature; encapsulated content present or absent with symbolic bytes; the honest key has produced one real signature (SignPKCS7) that the adversary may reuse",
			"decided: Verify(cert) = true only if some entry names the certificate, its signature is valid under the certificate's key over that entry's attribute SET, and (content encapsulated) its message digest equals SHA-256 of the content; completeness: the honest blob parses and verifies"},
		Outside:     []string{"byte-level edits of real blobs (covered for the Authenticode blob by C02)", "attribute edits other than permutation (duplication, removal: they change the signed bytes in the same way)", "EFIVariableAuthentication2.Verify entry point (thin wrapper)"},
		Assumptions: append([]string{"signature and hash models as in C02"}, commonAssumptions...),
	}
	registry["C13"] = &Property{
		Quick: []HarnessSpec{
			{Name: "VC13_HeaderFields", Params: map[string]int{"vsymC13Field": 0}, MaxDecisions: 3000, MaxPaths: 20000, TimeoutSec: 600, NeedReach: []string{"parsed", "end"}},
			{Name: "VC13_HeaderFields", Params: map[string]int{"vsymC13Field": 2}, MaxDecisions: 3000, MaxPaths: 20000, TimeoutSec: 600, NeedReach: []string{"parsed", "end"}},
			{Name: "VC13_HeaderFields", Params: map[string]int{"vsymC13Field": -2}, MaxDecisions: 3000, MaxPaths: 20000, TimeoutSec: 600, NeedReach: []string{"parsed", "rejected", "end"}},
			{Name: "VC13_CertificateTable", Params: map[string]int{"vsymC13Table": 24}, ConcAlloc: true, MaxDecisions: 2000, NeedReach: []string{"end"}},
			{Name: "VC13_NoAttributes", NeedReach: []string{"end"}},
			{Name: "VC13_AttributeShapes", NeedReach: []string{"end"}},
			{Name: "VC13_SmallDER", Params: map[string]int{"vsymC13Max": 12}, MaxDecisions: 2000, MaxPaths: 400000, TimeoutSec: 300, NeedReach: []string{"end"}},
			{Name: "VC13_BlobByte", Params: map[string]int{"vsymC13Stride": 64}, MaxDecisions: 2000, TimeoutSec: 400, NeedReach: []string{"end"}},
		},
		Thorough: []HarnessSpec{
			{Name: "VC13_HeaderFields", Params: map[string]int{"vsymC13Field": 0}, MaxDecisions: 6000, MaxPaths: 200000, TimeoutSec: 600, NeedReach: []string{"parsed", "end"}},
			{Name: "VC13_HeaderFields", Params: map[string]int{"vsymC13Field": 2}, MaxDecisions: 6000, MaxPaths: 200000, TimeoutSec: 600, NeedReach: []string{"parsed", "end"}},
			{Name: "VC13_HeaderFields", Params: map[string]int{"vsymC13Field": -2}, MaxDecisions: 6000, MaxPaths: 200000, TimeoutSec: 600, NeedReach: []string{"parsed", "rejected", "end"}},
			{Name: "VC13_CertificateTable", Params: map[string]int{"vsymC13Table": 48}, ConcAlloc: true, MaxDecisions: 4000, MaxPaths: 2000000, TimeoutSec: 600, NeedReach: []string{"end"}},
			{Name: "VC13_NoAttributes", NeedReach: []string{"end"}},
			{Name: "VC13_AttributeShapes", NeedReach: []string{"end"}},
			{Name: "VC13_SmallDER", Params: map[string]int{"vsymC13Max": 13}, MaxDecisions: 4000, MaxPaths: 4000000, TimeoutSec: 600, NeedReach: []string{"end"}},
			{Name: "VC13_BlobByte", Params: map[string]int{"vsymC13Stride": 16}, MaxDecisions: 4000, MaxPaths: 200000, TimeoutSec: 600, NeedReach: []string{"end"}},
		},
		Bounds: []string{"image: the shipped test image with one header field at a time taking every value (e_lfanew, NumberOfSections, PointerToSymbolTable, NumberOfSymbols, SizeOfOptionalHeader, Magic, SizeOfHeaders, NumberOfRvaAndSizes, certificate table address and size, and SizeOfRawData / PointerToRawData / PointerToRelocations / NumberOfRelocations of two sections), then Parse, Hash, Bytes, Signatures",
			"certificate table walk: fully symbolic table of 0..24 (quick) / 0..48 bytes; PKCS#7: fully symbolic DER of 0..12 (quick) / 0..13 bytes, a library-produced blob with one byte (stride 64 quick / 16 thorough) taking every value, a signer entry without signed attributes, and DER blobs naming the verifying certificate whose signed-attributes field is absent / empty / malformed / holds an empty value set",
			"obligations on every path: no panic, no log.Fatal/os.Exit, every byte allocation <= 8*len + 16 MiB (image) / 64 KiB (others), termination within 3000 symbolic decisions and 20M steps; violations are replayed natively (panic / exit / measured allocation above 64 MiB / time-out)"},
		Outside:     []string{"several header fields changed at once, images other than the fixture, fully symbolic images", "Verify on mutated images (C02 covers single-byte mutants of a signed image)", "wall-clock time and resident memory as measured quantities", "longer symbolic DER"},
		Assumptions: append([]string{"debug/pe.readCOFFSymbols reads auxiliary symbol records through an unsafe pointer cast; the model reads them into a scratch record (NewFile never uses their content)"}, commonAssumptions...),
	}
	registry["C16"] = &Property{
		Quick: []HarnessSpec{{Name: "VC16_ThirdParty", NeedReach: []string{"end"}}, {Name: "VC16_ThirdParty", Params: map[string]int{"vsymC16Content": 130}, NeedReach: []string{"end"}}, {Name: "VC16_Fixtures", NeedReach: []string{"end"}}},
		Thorough: []HarnessSpec{{Name: "VC16_ThirdParty", NeedReach: []string{"end"}}, {Name: "VC16_ThirdParty", Params: map[string]int{"vsymC16Content": 0}, NeedReach: []string{"end"}},
			{Name: "VC16_ThirdParty", Params: map[string]int{"vsymC16Content": 200}, TimeoutSec: 1200, NeedReach: []string{"end"}}, {Name: "VC16_Fixtures", NeedReach: []string{"end"}}},
		Bounds: []string{"thorough tier: content of 0, 4 and 200 symbolic bytes", "producer language (assumption about OpenSSL smime/cms with SHA-256 and sbsign, see DESIGN.md C16): attributes contentType(data), signingTime, messageDigest, optionally sMIMECapabilities with an opaque body of 7, 8, 48 or 150 bytes (signed attributes of 105..270 bytes: all three DER length forms), optionally a further unknown attribute (opaque 20-byte body under the signingCertificateV2 OID), in DER SET OF order (by encoding: a short capability list sorts before or between the standard attributes); with/without outer ContentInfo; digest algorithm with/without NULL parameters; content (4 or 130 symbolic bytes, as OCTET STRING: short and long length form) attached or detached — all 80 combinations per content length; serials and certificate bytes symbolic; the blob is built by the harness's reference encoder, not by the library",
			"decided: parses; signedBytes() and Marshal() of the parsed attributes equal the signed SET byte for byte; Verify(signer's certificate) is true and Verify(other certificate) is false", "the four third-party artefacts shipped under pkcs7/testdata and authenticode/testdata parse (concrete run; certificates through the real crypto/x509)"},
		Outside:     []string{"that the OpenSSL CLI emits exactly this language for each option combination (OpenSSL is C code outside the engine)", "verification of the shipped artefacts against their certificates (real RSA is outside the signature model)", "additional signed attributes beyond sMIMECapabilities; since fix 4b3bc85 verification uses the original attribute bytes, so attribute order no longer affects verification"},
		Assumptions: append([]string{"signature, hash and time models as in C05"}, commonAssumptions...),
	}
}
