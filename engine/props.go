package main

import "sort"

// Property describes the harnesses that decide one property, per tier.
type Property struct {
	Quick       []HarnessSpec
	Thorough    []HarnessSpec
	Bounds      []string
	Outside     []string
	Assumptions []string
}

var registry = map[string]*Property{}

func propIDs() []string {
	var ids []string
	for id := range registry {
		ids = append(ids, id)
	}
	sort.Strings(ids)
	return ids
}

func findSpec(name string) (*HarnessSpec, string) {
	for id, p := range registry {
		for i := range p.Quick {
			if p.Quick[i].Name == name {
				return &p.Quick[i], id
			}
		}
		for i := range p.Thorough {
			if p.Thorough[i].Name == name {
				return &p.Thorough[i], id
			}
		}
	}
	return nil, ""
}

var commonAssumptions = []string{
	"go/packages + go/ssa (x/tools v0.29.0) are a faithful IR of /repo's current working tree; the encoding is regenerated on every run",
	"the executor's instruction semantics and the intrinsics listed under coverage.intrinsics_used model the Go semantics / library contracts (validated by native replay of witnesses and counterexamples)",
	"solver answers (z3 4.8.12 incremental; portfolio of cvc5 --solve-bv-as-int=sum, z3 5.1.0, z3, cvc5 on unknown) are correct; unknown/time-out/error is never counted as success",
}
