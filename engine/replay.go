package main

// Native replay: the harness is compiled into the real package with
// "go test -overlay" and run on the solver's assignment.

import (
	"context"
	"encoding/json"
	"fmt"
	"os"
	"os/exec"
	"path/filepath"
	"strings"
	"time"

	"golang.org/x/tools/go/ssa"
)

type ReplayResult struct {
	Outcome  string `json:"outcome"` // clean | assert-fail:<label> | panic | exit | assume-fail | timeout | alloc | build-error
	Confirms bool   `json:"confirms"`
	Tail     string `json:"tail"`
	Cmd      string `json:"cmd"`
}

func expectedOutcome(site string) string {
	switch {
	case strings.HasPrefix(site, "assert:"):
		return "assert-fail:" + strings.TrimPrefix(site, "assert:")
	case strings.HasPrefix(site, "panic:"):
		return "panic"
	case strings.HasPrefix(site, "exit:"):
		return "exit"
	case strings.HasPrefix(site, "alloc:"):
		return "alloc"
	case site == "nonterm":
		return "timeout"
	case strings.HasPrefix(site, "race:"):
		return "race"
	}
	return "?"
}

func replay(ld *Loaded, fn *ssa.Function, f *Finding, dir string) *ReplayResult {
	return replayP(ld, fn, f, dir, nil)
}

func replayP(ld *Loaded, fn *ssa.Function, f *Finding, dir string, params map[string]int) *ReplayResult {
	os.RemoveAll(dir)
	if err := os.MkdirAll(dir, 0o755); err != nil {
		return &ReplayResult{Outcome: "build-error", Tail: err.Error()}
	}
	mb, _ := json.MarshalIndent(f.Model, "", " ")
	modelPath := filepath.Join(dir, "model.json")
	os.WriteFile(modelPath, mb, 0o644)
	fb, _ := json.MarshalIndent(f, "", " ")
	os.WriteFile(filepath.Join(dir, "finding.json"), fb, 0o644)

	pkgPath := fn.Pkg.Pkg.Path()
	rel := strings.TrimPrefix(strings.TrimPrefix(pkgPath, modPath), "/")
	testSrc := fmt.Sprintf(`package %s

import (
	"fmt"
	"runtime"
	"testing"
)

func TestVReplay(t *testing.T) {
	var m0, m1 runtime.MemStats
	runtime.ReadMemStats(&m0)
	defer func() {
		runtime.ReadMemStats(&m1)
		fmt.Printf("VSYM-TOTALALLOC %%d\n", m1.TotalAlloc-m0.TotalAlloc)
	}()
%s	%s()
	fmt.Println("VSYM-RETURNED")
}
`, fn.Pkg.Pkg.Name(), paramAssigns(params), fn.Name())
	testReal := filepath.Join(dir, "zz_verif_replay_test.go")
	os.WriteFile(testReal, []byte(testSrc), 0o644)
	repl := map[string]string{}
	for v, r := range ld.ovFiles {
		repl[v] = r
	}
	repl[filepath.Join(ld.repo, rel, "zz_verif_replay_test.go")] = testReal
	ob, _ := json.MarshalIndent(map[string]interface{}{"Replace": repl}, "", " ")
	ovPath := filepath.Join(dir, "overlay.json")
	os.WriteFile(ovPath, ob, 0o644)

	timeout := 120 * time.Second
	args := []string{"test", "-v", "-vet=off", "-count=1", "-run", "^TestVReplay$", "-overlay", ovPath, "-timeout", "60s", "./" + rel}
	raceEnv := "VSYM_RACE=0"
	if strings.HasPrefix(f.Site, "race:") {
		// shared-state writes found by the executor are confirmed with the Go race detector: the
		// harness runs its vsym.Concurrent operations from several goroutines
		args = append([]string{"test", "-race"}, args[1:]...)
		raceEnv = "VSYM_RACE=1"
		timeout = 300 * time.Second
	}
	cmdline := fmt.Sprintf("cd %s && VSYM_MODEL=%s VSYM_REPO=%s GOFLAGS=-mod=mod GOPROXY=off go %s", ld.repo, modelPath, ld.repo, strings.Join(args, " "))
	os.WriteFile(filepath.Join(dir, "cmd.txt"), []byte(cmdline+"\n"), 0o644)
	ctx, cancel := context.WithTimeout(context.Background(), timeout)
	defer cancel()
	cmd := exec.CommandContext(ctx, "go", args...)
	cmd.Dir = ld.repo
	tzEnv := "TZ=UTC"
	if f.Model != nil {
		if h, ok := f.Model.Scalars["tz.hours"]; ok {
			hh := int64(h)
			// Etc/GMT-3 is UTC+3 (POSIX sign convention)
			if hh > 0 {
				tzEnv = fmt.Sprintf("TZ=Etc/GMT-%d", hh)
			} else if hh < 0 {
				tzEnv = fmt.Sprintf("TZ=Etc/GMT+%d", -hh)
			}
		}
	}
	cmdline = strings.Replace(cmdline, "&& VSYM_MODEL", "&& "+tzEnv+" "+raceEnv+" VSYM_MODEL", 1)
	os.WriteFile(filepath.Join(dir, "cmd.txt"), []byte(cmdline+"\n"), 0o644)
	cmd.Env = append(os.Environ(), tzEnv, raceEnv, "CGO_ENABLED=1", "VSYM_MODEL="+modelPath, "VSYM_REPO="+ld.repo, "GOFLAGS=-mod=mod", "GOPROXY=off", "GOSUMDB=off", "GOTOOLCHAIN=local")
	out, err := cmd.CombinedOutput()
	txt := string(out)
	os.WriteFile(filepath.Join(dir, "output.txt"), out, 0o644)
	rr := &ReplayResult{Cmd: cmdline}
	tail := txt
	if len(tail) > 1500 {
		tail = tail[len(tail)-1500:]
	}
	rr.Tail = tail
	switch {
	case ctx.Err() != nil || strings.Contains(txt, "test timed out"):
		rr.Outcome = "timeout"
	case strings.Contains(txt, "[build failed]") || strings.Contains(txt, "[setup failed]"):
		rr.Outcome = "build-error"
	case strings.HasPrefix(f.Site, "race:") && strings.Contains(txt, "WARNING: DATA RACE"):
		rr.Outcome = "race"
	case strings.Contains(txt, "VSYM-ASSERT-FAIL "):
		i := strings.Index(txt, "VSYM-ASSERT-FAIL ")
		l := txt[i+len("VSYM-ASSERT-FAIL "):]
		if j := strings.Index(l, "\n"); j >= 0 {
			l = l[:j]
		}
		rr.Outcome = "assert-fail:" + strings.TrimSpace(l)
	case strings.Contains(txt, "VSYM-ASSUME-FAIL"):
		rr.Outcome = "assume-fail"
	case strings.Contains(txt, "VSYM-ERROR"):
		rr.Outcome = "build-error"
	case strings.Contains(txt, "panic:") || strings.Contains(txt, "fatal error:"):
		rr.Outcome = "panic"
	case strings.Contains(txt, "VSYM-RETURNED") || strings.Contains(txt, "VSYM-STOP"):
		rr.Outcome = "clean"
	case err != nil:
		rr.Outcome = "exit"
	default:
		rr.Outcome = "clean"
	}
	want := expectedOutcome(f.Site)
	rr.Confirms = rr.Outcome == want
	if want == "alloc" {
		// measured: total allocation above the declared bound
		rr.Confirms = false
		if i := strings.Index(txt, "VSYM-TOTALALLOC "); i >= 0 {
			var n uint64
			fmt.Sscanf(txt[i:], "VSYM-TOTALALLOC %d", &n)
			if n > 64<<20 {
				rr.Outcome = "alloc"
				rr.Confirms = true
			}
		} else if strings.Contains(txt, "out of memory") || strings.Contains(txt, "makeslice: len out of range") || strings.Contains(txt, "makeslice: cap out of range") {
			rr.Outcome = "alloc"
			rr.Confirms = true
		}
	}
	return rr
}

func paramAssigns(params map[string]int) string {
	var sb strings.Builder
	for k, v := range params {
		fmt.Fprintf(&sb, "\t%s = %d\n", k, v)
	}
	return sb.String()
}
