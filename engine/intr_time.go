package main

// Time model (DESIGN.md 1.5): time.Now() is a symbolic instant (frozen per path); a Time value is
// (instant, zone) where zone is UTC (loc == nil) or "local" with a symbolic offset; the calendar
// accessors are uninterpreted functions of the local seconds, constrained to their ranges.

import (
	"go/types"
)

func (e *Eng) timeT() types.Type { return e.namedType("time", "Time") }

func (e *Eng) timeFields(v Value) (wall, ext *Term, loc Value) {
	s := v.(Struct)
	return s[0].(*Term), s[1].(*Term), s[2]
}

func (e *Eng) localLoc() Value {
	p := e.path
	if p.localLoc == nil {
		v := e.zero(e.namedType("time", "Location"))
		p.localLoc = &v
	}
	return p.localLoc
}

// tzOffset: the process's zone offset in seconds (symbolic, whole hours, |off| <= 14h).
func (e *Eng) tzOffset() *Term {
	p := e.path
	if p.tzOff == nil {
		h := e.symScalar("tz.hours", 64)
		e.Assume(e.tb.And(e.tb.Sle(e.tb.I64(-14), h), e.tb.Sle(h, e.tb.I64(14))))
		p.tzOff = e.tb.Mul(h, e.tb.I64(3600))
	}
	return p.tzOff
}

func (e *Eng) localSec(t Value) *Term {
	_, ext, loc := e.timeFields(t)
	if _, isNil := loc.(NilPtr); isNil {
		return ext
	}
	if p, ok := loc.(*Value); ok && p == nil {
		return ext
	}
	return e.tb.Add(ext, e.tzOffset())
}

func (e *Eng) calendar(name string, t Value, lo, hi int64) *Term {
	r := e.tb.UF("time."+name, 64, e.localSec(t))
	e.assertPC(e.tb.And(e.tb.Sle(e.tb.I64(lo), r), e.tb.Sle(r, e.tb.I64(hi))))
	return r
}

func init() {
	reg := func(name string, f intrinsic) { intrinsics[name] = f }
	reg("time.Now", func(fr *frame, a []Value) Value {
		e := fr.e
		p := e.path
		if p.now == nil {
			p.now = e.symScalar("now.unix", 64)
			// 2001..2099, and internal seconds are counted from year 1
			e.Assume(e.tb.And(e.tb.Sle(e.tb.I64(978307200), p.now), e.tb.Sle(p.now, e.tb.I64(4102444800))))
		}
		const unixToInternal = (1969*365 + 1969/4 - 1969/100 + 1969/400) * 86400
		return Struct{e.tb.Const(64, 0), e.tb.Add(p.now, e.tb.I64(unixToInternal)), e.localLoc()}
	})
	reg("(time.Time).UTC", func(fr *frame, a []Value) Value {
		s := a[0].(Struct)
		return Struct{s[0], s[1], NilPtr{}}
	})
	reg("(time.Time).Local", func(fr *frame, a []Value) Value {
		s := a[0].(Struct)
		return Struct{s[0], s[1], fr.e.localLoc()}
	})
	reg("(time.Time).Year", func(fr *frame, a []Value) Value { return fr.e.calendar("year", a[0], 1970, 9999) })
	reg("(time.Time).Month", func(fr *frame, a []Value) Value { return fr.e.calendar("month", a[0], 1, 12) })
	reg("(time.Time).Day", func(fr *frame, a []Value) Value { return fr.e.calendar("day", a[0], 1, 31) })
	reg("(time.Time).Hour", func(fr *frame, a []Value) Value { return fr.e.calendar("hour", a[0], 0, 23) })
	reg("(time.Time).Minute", func(fr *frame, a []Value) Value { return fr.e.calendar("minute", a[0], 0, 59) })
	reg("(time.Time).Second", func(fr *frame, a []Value) Value { return fr.e.calendar("second", a[0], 0, 59) })
	reg("(time.Time).Nanosecond", func(fr *frame, a []Value) Value { return fr.e.tb.I64(0) })
	reg("(time.Time).Date", func(fr *frame, a []Value) Value {
		e := fr.e
		return Tuple{e.calendar("year", a[0], 1970, 9999), e.calendar("month", a[0], 1, 12), e.calendar("day", a[0], 1, 31)}
	})
	reg("(time.Time).Clock", func(fr *frame, a []Value) Value {
		e := fr.e
		return Tuple{e.calendar("hour", a[0], 0, 23), e.calendar("minute", a[0], 0, 59), e.calendar("second", a[0], 0, 59)}
	})
}
