package main

// Time model (DESIGN.md 1.5): time.Now() is a symbolic instant (frozen per path); a Time value is
// (instant, zone) where zone is UTC (loc == nil) or "local" with a symbolic offset; the calendar
// accessors are uninterpreted functions of the local seconds, constrained to their ranges.

import (
	"fmt"
	"go/types"
)

func (e *Eng) timeT() types.Type { return e.namedType("time", "Time") }

func (e *Eng) timeFields(v Value) (wall, ext *Term, loc Value) {
	s := v.(Struct)
	return s[0].(*Term), s[1].(*Term), s[2]
}

func (e *Eng) localLoc() Value {
	p := e.path
	if p.localLoc == nil {
		v := e.zero(e.namedType("time", "Location"))
		p.localLoc = &v
	}
	return p.localLoc
}

// tzOffset: the process's zone offset in seconds (symbolic, whole hours, |off| <= 14h).
func (e *Eng) tzOffset() *Term {
	p := e.path
	if p.tzOff == nil {
		h := e.symScalar("tz.hours", 64)
		e.Assume(e.tb.And(e.tb.Sle(e.tb.I64(-12), h), e.tb.Sle(h, e.tb.I64(14))))
		p.tzOff = e.tb.Mul(h, e.tb.I64(3600))
	}
	return p.tzOff
}

func (e *Eng) localSec(t Value) *Term {
	_, ext, loc := e.timeFields(t)
	if _, isNil := loc.(NilPtr); isNil {
		return ext
	}
	if p, ok := loc.(*Value); ok && p == nil {
		return ext
	}
	return e.tb.Add(ext, e.tzOffset())
}

func (e *Eng) calendar(name string, t Value, lo, hi int64) *Term {
	tb := e.tb
	ls := e.localSec(t)
	r := tb.UF("time."+name, 64, ls)
	e.assertPC(tb.And(tb.Sle(tb.I64(lo), r), tb.Sle(r, tb.I64(hi))))
	if name == "day" {
		// a real calendar day: day <= days in (month, year)
		mo := tb.UF("time.month", 64, ls)
		yr := tb.UF("time.year", 64, ls)
		is := func(m int64) *Term { return tb.Eq(mo, tb.I64(m)) }
		leap := tb.Eq(tb.Bin(OpAnd, yr, tb.I64(3)), tb.I64(0)) // 1950..2049: every 4th year incl. 2000
		dim := tb.Ite(is(2), tb.Ite(leap, tb.I64(29), tb.I64(28)), tb.Ite(tb.Or(is(4), is(6), is(9), is(11)), tb.I64(30), tb.I64(31)))
		e.assertPC(tb.And(tb.Sle(r, dim), tb.Sle(tb.I64(1), mo), tb.Sle(mo, tb.I64(12)), tb.Sle(tb.I64(1950), yr), tb.Sle(yr, tb.I64(2049))))
	}
	return r
}

func init() {
	reg := func(name string, f intrinsic) { intrinsics[name] = f }
	reg("time.Now", func(fr *frame, a []Value) Value {
		e := fr.e
		p := e.path
		if p.now == nil {
			p.now = e.symScalar("now.unix", 64)
			p.now0 = p.now
			// the clock is assumed to lie in 2001..2049 (UTCTime cannot represent 2050 and later:
			// the library's attribute encoder panics then; outside the claim)
			e.Assume(e.tb.And(e.tb.Sle(e.tb.I64(978307200), p.now), e.tb.Slt(p.now, e.tb.I64(2524608000))))
		}
		const unixToInternal = (1969*365 + 1969/4 - 1969/100 + 1969/400) * 86400
		return Struct{e.tb.Const(64, 0), e.tb.Add(p.now, e.tb.I64(unixToInternal)), e.localLoc()}
	})
	reg("(time.Time).UTC", func(fr *frame, a []Value) Value {
		s := a[0].(Struct)
		return Struct{s[0], s[1], NilPtr{}}
	})
	reg("(time.Time).Local", func(fr *frame, a []Value) Value {
		s := a[0].(Struct)
		return Struct{s[0], s[1], fr.e.localLoc()}
	})
	reg("(time.Time).Year", func(fr *frame, a []Value) Value { return fr.e.calendar("year", a[0], 1950, 2049) })
	reg("(time.Time).Month", func(fr *frame, a []Value) Value { return fr.e.calendar("month", a[0], 1, 12) })
	reg("(time.Time).Day", func(fr *frame, a []Value) Value { return fr.e.calendar("day", a[0], 1, 31) })
	reg("(time.Time).Hour", func(fr *frame, a []Value) Value { return fr.e.calendar("hour", a[0], 0, 23) })
	reg("(time.Time).Minute", func(fr *frame, a []Value) Value { return fr.e.calendar("minute", a[0], 0, 59) })
	reg("(time.Time).Second", func(fr *frame, a []Value) Value { return fr.e.calendar("second", a[0], 0, 59) })
	reg("(time.Time).Nanosecond", func(fr *frame, a []Value) Value { return fr.e.tb.I64(0) })
	reg("(time.Time).Date", func(fr *frame, a []Value) Value {
		e := fr.e
		return Tuple{e.calendar("year", a[0], 1950, 2049), e.calendar("month", a[0], 1, 12), e.calendar("day", a[0], 1, 31)}
	})
	reg("(time.Time).Clock", func(fr *frame, a []Value) Value {
		e := fr.e
		return Tuple{e.calendar("hour", a[0], 0, 23), e.calendar("minute", a[0], 0, 59), e.calendar("second", a[0], 0, 59)}
	})
}

// ---- UTCTime rendering and parsing ----

func (e *Eng) twoDigits(v *Term) []*Term {
	tb := e.tb
	b := tb.Extract(v, 7, 0)
	ten := tb.Const(8, 10)
	return []*Term{tb.Add(tb.Bin(OpUDiv, b, ten), tb.Const(8, '0')), tb.Add(tb.Bin(OpURem, b, ten), tb.Const(8, '0'))}
}

func isNilLoc(loc Value) bool {
	if _, ok := loc.(NilPtr); ok {
		return true
	}
	p, ok := loc.(*Value)
	return ok && p == nil
}

func init() {
	reg := func(name string, f intrinsic) { intrinsics[name] = f }
	reg("(time.Time).Format", func(fr *frame, a []Value) Value {
		e := fr.e
		tb := e.tb
		layout, ok := a[1].(string)
		if !ok || (layout != "060102150405Z0700" && layout != "0601021504Z0700") {
			e.unsupported("time.Format layout %v", a[1])
		}
		withSec := layout == "060102150405Z0700"
		_, ext, loc := e.timeFields(a[0])
		if pt, ok := e.path.parsedTimes[ext.ID]; ok && isNilLoc(loc) {
			if withSec == pt.withSec {
				return e.strVal(e.termsSlice(pt.bytes, "utctime"))
			}
		}
		t := a[0]
		year := tb.Extract(e.calendar("year", t, 1950, 2049), 15, 0)
		if _, _, l := e.timeFields(t); true {
			_ = l
		}
		yy := tb.ZExt(tb.Bin(OpURem, year, tb.Const(16, 100)), 64)
		var out []*Term
		out = append(out, e.twoDigits(yy)...)
		out = append(out, e.twoDigits(e.calendar("month", t, 1, 12))...)
		out = append(out, e.twoDigits(e.calendar("day", t, 1, 31))...)
		out = append(out, e.twoDigits(e.calendar("hour", t, 0, 23))...)
		out = append(out, e.twoDigits(e.calendar("minute", t, 0, 59))...)
		if withSec {
			out = append(out, e.twoDigits(e.calendar("second", t, 0, 59))...)
		}
		if isNilLoc(loc) || e.Decide(tb.Eq(e.tzOffset(), tb.I64(0))) {
			out = append(out, tb.Const(8, 'Z'))
		} else {
			off := e.tzOffset()
			h := tb.Bin(OpSDiv, off, tb.I64(3600))
			if e.Decide(tb.Slt(off, tb.I64(0))) {
				out = append(out, tb.Const(8, '-'))
				h = tb.Neg(h)
			} else {
				out = append(out, tb.Const(8, '+'))
			}
			out = append(out, e.twoDigits(h)...)
			out = append(out, tb.Const(8, '0'), tb.Const(8, '0'))
		}
		return e.strVal(e.termsSlice(out, "utctime"))
	})
	reg("(*golang.org/x/crypto/cryptobyte.String).ReadASN1UTCTime", func(fr *frame, a []Value) Value {
		e := fr.e
		tb := e.tb
		// read the element with the real reader
		cbT := e.namedType("golang.org/x/crypto/cryptobyte", "String")
		var bytesV Value = e.nilSlice()
		rd := e.lookupMethod(types.NewPointer(cbT), "ReadASN1")
		ok := e.callSSA(fr, fr.callPos, rd, []Value{a[0], &bytesV, tb.Const(8, 23)}, nil).(*Term)
		if !e.Decide(ok) {
			return tb.F
		}
		b := bytesV.(SliceVal)
		if !b.Len.IsConst() {
			b.Len = tb.Const(64, e.concretize(b.Len, 64))
		}
		n := int(b.Len.C)
		if n != 13 && n != 11 {
			return tb.F
		}
		bs := e.viewBytes(b, n)
		num := func(i int) *Term { // two digits at i as an 8-bit number
			return tb.Add(tb.Mul(tb.Sub(bs[i], tb.Const(8, '0')), tb.Const(8, 10)), tb.Sub(bs[i+1], tb.Const(8, '0')))
		}
		var conds []*Term
		for i := 0; i < n-1; i++ {
			conds = append(conds, tb.Ule(tb.Const(8, '0'), bs[i]), tb.Ule(bs[i], tb.Const(8, '9')))
		}
		conds = append(conds, tb.Eq(bs[n-1], tb.Const(8, 'Z')))
		yy, mo, dd, hh, mi := num(0), num(2), num(4), num(6), num(8)
		c8 := func(v uint64) *Term { return tb.Const(8, v) }
		conds = append(conds, tb.Ule(c8(1), mo), tb.Ule(mo, c8(12)), tb.Ule(c8(1), dd), tb.Ule(hh, c8(23)), tb.Ule(mi, c8(59)))
		if n == 13 {
			conds = append(conds, tb.Ule(num(10), c8(59)))
		}
		// days in month (two-digit years 50..99 are 19xx, 00..49 are 20xx: leap iff yy % 4 == 0, 2000 included)
		leap := tb.Eq(tb.Bin(OpAnd, yy, c8(3)), c8(0))
		is := func(m uint64) *Term { return tb.Eq(mo, c8(m)) }
		dim := tb.Ite(is(2), tb.Ite(leap, c8(29), c8(28)), tb.Ite(tb.Or(is(4), is(6), is(9), is(11)), c8(30), c8(31)))
		conds = append(conds, tb.Ule(dd, dim))
		if !e.Decide(tb.And(conds...)) {
			return tb.F
		}
		p := e.path
		p.uniq++
		ext := e.tb.Var(fmt.Sprintf("utctime!%d", p.uniq), 64)
		e.assertPC(tb.Slt(tb.I64(0), ext))
		if p.parsedTimes == nil {
			p.parsedTimes = map[int]parsedTime{}
		}
		p.parsedTimes[ext.ID] = parsedTime{bytes: bs, withSec: n == 13}
		var tv Value = Struct{tb.Const(64, 0), ext, NilPtr{}}
		// calendar accessors of this value agree with the text
		year := tb.Add(tb.ZExt(yy, 64), tb.Ite(tb.Ult(yy, c8(50)), tb.I64(2000), tb.I64(1900)))
		e.assertPC(tb.Eq(e.calendar("year", tv, 1950, 2049), year))
		e.store(nil, a[1], tv, fr.callPos)
		return tb.T
	})
	reg("(*golang.org/x/crypto/cryptobyte.String).ReadASN1Integer", func(fr *frame, a []Value) Value {
		e := fr.e
		tb := e.tb
		out := a[1].(Iface)
		if out.T == nil {
			e.unsupported("ReadASN1Integer(nil)")
		}
		cbT := types.NewPointer(e.namedType("golang.org/x/crypto/cryptobyte", "String"))
		pt, ok := out.T.(*types.Pointer)
		if !ok {
			e.unsupported("ReadASN1Integer into %v", out.T)
		}
		if nt, ok := pt.Elem().(*types.Named); ok && nt.Obj().Name() == "Int" && nt.Obj().Pkg().Path() == "math/big" {
			return e.callSSA(fr, fr.callPos, e.lookupMethod(cbT, "readASN1BigInt"), []Value{a[0], out.V}, nil)
		}
		w, signed, isInt := intWidth(pt.Elem())
		if !isInt || w == 0 {
			e.unsupported("ReadASN1Integer into %v", out.T)
		}
		if signed {
			var tmp Value = tb.I64(0)
			okv := e.callSSA(fr, fr.callPos, e.lookupMethod(cbT, "readASN1Int64"), []Value{a[0], &tmp}, nil).(*Term)
			if !e.Decide(okv) {
				return tb.F
			}
			v := tmp.(*Term)
			if w < 64 && !e.Decide(tb.Eq(tb.SExt(tb.Extract(v, w-1, 0), 64), v)) {
				return tb.F
			}
			e.store(nil, out.V, tb.Resize(v, w, true), fr.callPos)
			return tb.T
		}
		var tmp Value = tb.Const(64, 0)
		okv := e.callSSA(fr, fr.callPos, e.lookupMethod(cbT, "readASN1Uint64"), []Value{a[0], &tmp}, nil).(*Term)
		if !e.Decide(okv) {
			return tb.F
		}
		v := tmp.(*Term)
		if w < 64 && !e.Decide(tb.Eq(tb.ZExt(tb.Extract(v, w-1, 0), 64), v)) {
			return tb.F
		}
		e.store(nil, out.V, tb.Resize(v, w, false), fr.callPos)
		return tb.T
	})
}

type parsedTime struct {
	bytes   []*Term
	withSec bool
}

// advanceClock is called by slow dependencies (the signer): afterwards time.Now() may return a
// later instant.  The scalar "sign.slow" says whether the wall clock crossed a second boundary
// (natively the harness signer then sleeps until the next second).
func (e *Eng) advanceClock() {
	p := e.path
	tb := e.tb
	slow := e.symScalar("sign.slow", 8)
	e.Assume(tb.Ule(slow, tb.Const(8, 1)))
	if p.now == nil {
		e.Assume(tb.Eq(slow, tb.Const(8, 0))) // nobody looked at the clock yet; the first reading is arbitrary anyway
		return
	}
	p.uniq++
	next := tb.Var(fmt.Sprintf("now.unix!%d", p.uniq), 64)
	e.assertPC(tb.And(tb.Sle(p.now, next), tb.Slt(next, tb.I64(2524608000)),
		tb.Implies(tb.Eq(slow, tb.Const(8, 0)), tb.Eq(next, p.now)),
		tb.Implies(tb.Eq(slow, tb.Const(8, 1)), tb.Slt(p.now, next))))
	p.now = next
}
