package main

// Models of standard-library entry points that bottom out in reflection, the
// runtime or the OS, or that fork needlessly when interpreted (DESIGN.md 1.5).

import (
	"fmt"
	"go/token"
	"go/types"
	"strings"

	"golang.org/x/tools/go/ssa"
)

// ---- helpers ----

func (e *Eng) namedType(pkg, name string) types.Type {
	p := e.prog.ImportedPackage(pkg)
	if p == nil {
		e.unsupported("package %s not loaded", pkg)
	}
	t := p.Type(name)
	if t == nil {
		e.unsupported("type %s.%s not found", pkg, name)
	}
	return t.Type()
}

func (e *Eng) globalVal(pkg, name string) Value {
	p := e.prog.ImportedPackage(pkg)
	if p == nil {
		e.unsupported("package %s not loaded", pkg)
	}
	g, ok := p.Members[name].(*ssa.Global)
	if !ok {
		e.unsupported("global %s.%s not found", pkg, name)
	}
	return *e.global(g)
}

func (e *Eng) errEOF() Value           { return e.globalVal("io", "EOF") }
func (e *Eng) errUnexpectedEOF() Value { return e.globalVal("io", "ErrUnexpectedEOF") }

func isNilIface(v Value) bool {
	i, ok := v.(Iface)
	return ok && i.T == nil
}

// callMethod invokes method name on the dynamic value of an interface.
func (e *Eng) callMethod(fr *frame, recv Iface, name string, args ...Value) Value {
	if recv.T == nil {
		e.throw("nil pointer dereference (method call on nil interface)", token.NoPos)
	}
	f := e.lookupMethod(recv.T, name)
	if f == nil {
		e.unsupported("type %v has no method %s", recv.T, name)
	}
	return e.callSSA(fr, token.NoPos, f, append([]Value{recv.V}, args...), nil)
}

// lookupMethod finds a method by name in the method set of T (nil if absent).
func (e *Eng) lookupMethod(T types.Type, name string) *ssa.Function {
	if T == nil {
		return nil
	}
	ms := e.prog.MethodSets.MethodSet(T)
	for i := 0; i < ms.Len(); i++ {
		if ms.At(i).Obj().Name() == name {
			return e.prog.MethodValue(ms.At(i))
		}
	}
	return nil
}

func (e *Eng) hasMethod(T types.Type, name string) bool {
	if T == nil {
		return false
	}
	ms := e.prog.MethodSets.MethodSet(T)
	for i := 0; i < ms.Len(); i++ {
		if ms.At(i).Obj().Name() == name {
			return true
		}
	}
	return false
}

// structField returns a pointer to the named field of the struct *p points to.
func (e *Eng) fieldPtr(p Value, T types.Type, name string) *Value {
	pv, ok := p.(*Value)
	if !ok || pv == nil {
		e.throw("invalid memory address or nil pointer dereference", token.NoPos)
	}
	st := T.Underlying().(*types.Struct)
	for i := 0; i < st.NumFields(); i++ {
		if st.Field(i).Name() == name {
			return &(*pv).(Struct)[i]
		}
	}
	panic("no field " + name)
}

func (e *Eng) setField(p Value, T types.Type, name string, v Value) {
	e.storeSlot(e.fieldPtr(p, T, name), v)
}

// ---- bytes.Buffer ----

func (e *Eng) bufT() types.Type { return e.namedType("bytes", "Buffer") }

func (e *Eng) bufWrite(b Value, src SliceVal) {
	T := e.bufT()
	bp := e.fieldPtr(b, T, "buf")
	cur := (*bp).(SliceVal)
	e.storeSlot(e.fieldPtr(b, T, "lastRead"), e.tb.Const(8, 0))
	if src.Obj == nil {
		return
	}
	if cur.Obj == nil {
		cur = SliceVal{e.newObj(e.tb.I64(0), "buf"), e.tb.I64(0), e.tb.I64(0), e.tb.I64(0)}
	}
	e.storeSlot(bp, e.appendBytes(cur, src))
}

// drain reads r to EOF; returns everything read and the first non-EOF error (or nil interface).
func (e *Eng) drain(fr *frame, r Iface) (SliceVal, Value) {
	tb := e.tb
	z := tb.I64(0)
	acc := SliceVal{e.newObj(z, "drain"), z, z, z}
	huge := tb.I64(1 << 62)
	eof := e.errEOF()
	errT := types.Universe.Lookup("error").Type()
	for it := 0; ; it++ {
		if it > 64 {
			panic(pathEnd{kind: endUnwind, msg: "reader did not reach EOF within 64 reads"})
		}
		buf := SliceVal{e.newObj(huge, "drainbuf"), z, huge, huge}
		res := e.callMethod(fr, r, "Read", buf).(Tuple)
		n := res[0].(*Term)
		err := res[1]
		if !(n.IsConst() && n.C == 0) {
			nl := tb.Add(acc.Len, n)
			o := e.newObj(nl, "drain")
			e.bcopy(o, z, acc.Len, acc.Obj.cont, acc.Off)
			e.bcopy(o, acc.Len, n, buf.Obj.cont, z)
			acc = SliceVal{o, z, nl, nl}
		}
		if !isNilIface(err) {
			acc = e.splitLen(acc)
			if e.Decide(e.equal(errT, err, eof)) {
				return acc, Iface{}
			}
			return acc, err
		}
		if e.Decide(tb.Eq(n, z)) {
			// (0, nil): io.Copy would spin, Buffer.ReadFrom panics after 100; treat as hang
			panic(pathEnd{kind: endUnwind, msg: "reader returned (0, nil)"})
		}
	}
}

// splitLen case-splits the length of a freshly produced byte string when the harness asked for
// case-split sizes (keeps offsets derived from it concrete).
func (e *Eng) splitLen(s SliceVal) SliceVal {
	if s.Len.IsConst() || e.path == nil || e.path.concSplit == 0 || e.curHS == nil || !e.curHS.ConcAlloc {
		return s
	}
	if r := e.path.binds.rewrite(s.Len, e.tb); r.IsConst() {
		s.Len, s.Cap = r, r
		return s
	}
	if e.Decide(e.tb.Ule(s.Len, e.tb.I64(int64(e.path.concSplit)))) {
		v := e.tb.Const(64, e.concretize(s.Len, e.path.concSplit+2))
		s.Len, s.Cap = v, v
	}
	return s
}

// readFullFast handles *bytes.Reader and *bytes.Buffer sources with one three-way case split
// (enough bytes / none / some), which keeps copy lengths and positions as simple as the request.
func (e *Eng) readFullFast(fr *frame, r Iface, buf SliceVal) (*Term, Value, bool) {
	tb := e.tb
	pt, ok := r.T.(*types.Pointer)
	if !ok {
		return nil, nil, false
	}
	nt, ok := pt.Elem().(*types.Named)
	if !ok || nt.Obj().Pkg() == nil || nt.Obj().Pkg().Path() != "bytes" {
		return nil, nil, false
	}
	var dataName, posName string
	switch nt.Obj().Name() {
	case "Reader":
		dataName, posName = "s", "i"
	case "Buffer":
		dataName, posName = "buf", "off"
	default:
		return nil, nil, false
	}
	if _, isNil := r.V.(NilPtr); isNil {
		return nil, nil, false
	}
	if !e.Decide(tb.Slt(tb.I64(0), buf.Len)) {
		return tb.I64(0), Iface{}, true
	}
	dp := e.fieldPtr(r.V, nt, dataName)
	pp := e.fieldPtr(r.V, nt, posName)
	data := (*dp).(SliceVal)
	pos := (*pp).(*Term)
	avail := tb.Sub(data.Len, pos)
	isBuf := nt.Obj().Name() == "Buffer"
	finish := func(n *Term, drained bool) {
		if isBuf {
			if drained {
				e.storeSlot(dp, SliceVal{data.Obj, data.Off, tb.I64(0), data.Cap})
				e.storeSlot(pp, tb.I64(0))
				e.storeSlot(e.fieldPtr(r.V, nt, "lastRead"), tb.Const(8, 0))
			} else {
				e.storeSlot(pp, tb.Add(pos, n))
				e.storeSlot(e.fieldPtr(r.V, nt, "lastRead"), tb.Const(8, 0xff)) // opRead = -1
			}
		} else {
			e.storeSlot(pp, tb.Add(pos, n))
			e.storeSlot(e.fieldPtr(r.V, nt, "prevRune"), tb.I64(-1))
		}
	}
	if e.Decide(tb.Sle(buf.Len, avail)) {
		if data.Obj != nil {
			e.bcopy(buf.Obj, buf.Off, buf.Len, data.Obj.cont, tb.Add(data.Off, pos))
		}
		finish(buf.Len, false)
		return buf.Len, Iface{}, true
	}
	if e.Decide(tb.Sle(avail, tb.I64(0))) {
		if isBuf {
			finish(tb.I64(0), true)
		}
		return tb.I64(0), e.errEOF(), true
	}
	if data.Obj != nil {
		e.bcopy(buf.Obj, buf.Off, avail, data.Obj.cont, tb.Add(data.Off, pos))
	}
	finish(avail, isBuf)
	return avail, e.errUnexpectedEOF(), true
}

// readFullSection: io.ReadFull from an *io.SectionReader over a *bytes.Reader when the request lies
// inside both (one decision, position advances by exactly the request); other cases fall back to the
// generic path.
func (e *Eng) readFullSection(fr *frame, r Iface, buf SliceVal) (*Term, Value, bool) {
	tb := e.tb
	pt, ok := r.T.(*types.Pointer)
	if !ok {
		return nil, nil, false
	}
	nt, ok := pt.Elem().(*types.Named)
	if !ok || nt.Obj().Pkg() == nil || nt.Obj().Pkg().Path() != "io" || nt.Obj().Name() != "SectionReader" {
		return nil, nil, false
	}
	if _, isNil := r.V.(NilPtr); isNil {
		return nil, nil, false
	}
	under, ok := (*e.fieldPtr(r.V, nt, "r")).(Iface)
	if !ok || under.T == nil {
		return nil, nil, false
	}
	upt, ok := under.T.(*types.Pointer)
	if !ok {
		return nil, nil, false
	}
	unt, ok := upt.Elem().(*types.Named)
	if !ok || unt.Obj().Pkg() == nil || unt.Obj().Pkg().Path() != "bytes" || unt.Obj().Name() != "Reader" {
		return nil, nil, false
	}
	if _, isNil := under.V.(NilPtr); isNil {
		return nil, nil, false
	}
	offp := e.fieldPtr(r.V, nt, "off")
	off := (*offp).(*Term)
	limit := (*e.fieldPtr(r.V, nt, "limit")).(*Term)
	data := (*e.fieldPtr(under.V, unt, "s")).(SliceVal)
	end := tb.Add(off, buf.Len)
	inside := tb.And(tb.Sle(tb.I64(0), off), tb.Sle(off, end), tb.Sle(end, limit), tb.Sle(end, data.Len))
	if !e.Decide(inside) {
		return nil, nil, false
	}
	if data.Obj != nil && buf.Obj != nil {
		e.bcopy(buf.Obj, buf.Off, buf.Len, data.Obj.cont, tb.Add(data.Off, off))
	}
	e.storeSlot(offp, end)
	return buf.Len, Iface{}, true
}

// readFull models io.ReadFull(r, buf).
func (e *Eng) readFull(fr *frame, r Iface, buf SliceVal) (*Term, Value) {
	tb := e.tb
	if r.T != nil {
		if n, err, ok := e.readFullFast(fr, r, buf); ok {
			return n, err
		}
		if n, err, ok := e.readFullSection(fr, r, buf); ok {
			return n, err
		}
	}
	n := tb.I64(0)
	var err Value = Iface{}
	for it := 0; ; it++ {
		if it > 16 {
			panic(pathEnd{kind: endUnwind, msg: "io.ReadFull: more than 16 short reads"})
		}
		if !e.Decide(tb.Slt(n, buf.Len)) {
			return n, Iface{}
		}
		if !isNilIface(err) {
			break
		}
		sub := SliceVal{buf.Obj, tb.Add(buf.Off, n), tb.Sub(buf.Len, n), tb.Sub(buf.Cap, n)}
		res := e.callMethod(fr, r, "Read", sub).(Tuple)
		nn := res[0].(*Term)
		err = res[1]
		n = tb.Add(n, nn)
		if isNilIface(err) && nn.IsConst() && nn.C == 0 {
			panic(pathEnd{kind: endUnwind, msg: "reader returned (0, nil)"})
		}
	}
	// n < len(buf) and err != nil
	errT := types.Universe.Lookup("error").Type()
	if e.Decide(tb.And(tb.Slt(tb.I64(0), n), e.equal(errT, err, e.errEOF()))) {
		return n, e.errUnexpectedEOF()
	}
	return n, err
}

// ---- encoding/binary ----

func isLittle(order Value) bool {
	i := order.(Iface)
	return strings.Contains(i.T.String(), "little") || strings.Contains(i.T.String(), "Little")
}

// binSize returns the encoded size of a value of type T (v supplies slice lengths); ok=false if not fixed-size data.
func (e *Eng) binSize(T types.Type, v Value) (*Term, bool) {
	tb := e.tb
	switch t := T.Underlying().(type) {
	case *types.Basic:
		if w, _, ok := intWidth(t); ok {
			if w == 0 {
				return tb.I64(1), true
			}
			if t.Kind() == types.Int || t.Kind() == types.Uint || t.Kind() == types.Uintptr {
				return nil, false
			}
			return tb.I64(int64(w / 8)), true
		}
		if t.Kind() == types.Float32 {
			return tb.I64(4), true
		}
		if t.Kind() == types.Float64 {
			return tb.I64(8), true
		}
		return nil, false
	case *types.Array:
		if isByteType(t.Elem()) {
			return tb.I64(t.Len()), true
		}
		es, ok := e.binSize(t.Elem(), nil)
		if !ok {
			return nil, false
		}
		return tb.Mul(es, tb.I64(t.Len())), true
	case *types.Struct:
		sum := tb.I64(0)
		for i := 0; i < t.NumFields(); i++ {
			fs, ok := e.binSize(t.Field(i).Type(), nil)
			if !ok {
				return nil, false
			}
			sum = tb.Add(sum, fs)
		}
		return sum, true
	case *types.Slice:
		if isByteType(t.Elem()) {
			if v == nil {
				return nil, false
			}
			return v.(SliceVal).Len, true
		}
		if v == nil {
			return nil, false
		}
		es, ok := e.binSize(t.Elem(), nil)
		if !ok {
			return nil, false
		}
		return tb.Mul(es, tb.I64(int64(len(v.([]Value))))), true
	}
	return nil, false
}

func (e *Eng) assemble(bs []*Term, little bool) *Term {
	// bs in stream order
	var r *Term
	if little {
		for i := len(bs) - 1; i >= 0; i-- {
			if r == nil {
				r = bs[i]
			} else {
				r = e.tb.Concat(r, bs[i])
			}
		}
	} else {
		for i := 0; i < len(bs); i++ {
			if r == nil {
				r = bs[i]
			} else {
				r = e.tb.Concat(r, bs[i])
			}
		}
	}
	return r
}

func (e *Eng) split(v *Term, little bool) []*Term {
	n := v.W / 8
	out := make([]*Term, n)
	for i := 0; i < n; i++ {
		b := e.tb.Extract(v, 8*i+7, 8*i)
		if little {
			out[i] = b
		} else {
			out[n-1-i] = b
		}
	}
	return out
}

// binDecode fills the slot at addr (holding a value of type T) from src starting at *off.
func (e *Eng) binDecode(T types.Type, addr *Value, src SliceVal, off **Term, little bool) {
	tb := e.tb
	switch t := T.Underlying().(type) {
	case *types.Basic:
		w, _, _ := intWidth(t)
		if w == 0 {
			b := e.sliceAt(src, *off)
			*off = tb.Add(*off, tb.I64(1))
			e.storeSlot(addr, tb.BNot(tb.Eq(b, tb.Const(8, 0))))
			return
		}
		n := w / 8
		bs := make([]*Term, n)
		for i := 0; i < n; i++ {
			bs[i] = e.sliceAt(src, tb.Add(*off, tb.I64(int64(i))))
		}
		*off = tb.Add(*off, tb.I64(int64(n)))
		e.storeSlot(addr, e.assemble(bs, little))
	case *types.Array:
		if isByteType(t.Elem()) {
			a := (*addr).(BArr)
			n := tb.I64(t.Len())
			e.bcopy(a.Obj, tb.I64(0), n, src.Obj.cont, tb.Add(src.Off, *off))
			*off = tb.Add(*off, n)
			return
		}
		a := (*addr).(Array)
		for i := range a {
			e.binDecode(t.Elem(), &a[i], src, off, little)
		}
	case *types.Struct:
		s := (*addr).(Struct)
		for i := range s {
			if t.Field(i).Name() == "_" {
				sz, _ := e.binSize(t.Field(i).Type(), nil)
				*off = tb.Add(*off, sz)
				continue
			}
			e.binDecode(t.Field(i).Type(), &s[i], src, off, little)
		}
	case *types.Slice:
		if isByteType(t.Elem()) {
			s := (*addr).(SliceVal)
			if s.Obj != nil {
				e.bcopy(s.Obj, s.Off, s.Len, src.Obj.cont, tb.Add(src.Off, *off))
			}
			*off = tb.Add(*off, s.Len)
			return
		}
		s := (*addr).([]Value)
		for i := range s {
			e.binDecode(t.Elem(), &s[i], src, off, little)
		}
	default:
		e.unsupported("binary.Read into %v", T)
	}
}

func (e *Eng) binEncode(T types.Type, v Value, dst *ByteObj, off **Term, little bool) {
	tb := e.tb
	switch t := T.Underlying().(type) {
	case *types.Basic:
		w, _, _ := intWidth(t)
		if w == 0 {
			e.bwrite(dst, *off, tb.Ite(v.(*Term), tb.Const(8, 1), tb.Const(8, 0)))
			*off = tb.Add(*off, tb.I64(1))
			return
		}
		for i, b := range e.split(v.(*Term), little) {
			e.bwrite(dst, tb.Add(*off, tb.I64(int64(i))), b)
		}
		*off = tb.Add(*off, tb.I64(int64(w/8)))
	case *types.Array:
		if isByteType(t.Elem()) {
			a := v.(BArr)
			n := tb.I64(t.Len())
			e.bcopy(dst, *off, n, a.Obj.cont, tb.I64(0))
			*off = tb.Add(*off, n)
			return
		}
		for _, x := range v.(Array) {
			e.binEncode(t.Elem(), x, dst, off, little)
		}
	case *types.Struct:
		for i, x := range v.(Struct) {
			if t.Field(i).Name() == "_" {
				sz, _ := e.binSize(t.Field(i).Type(), nil)
				*off = tb.Add(*off, sz)
				continue
			}
			e.binEncode(t.Field(i).Type(), x, dst, off, little)
		}
	case *types.Slice:
		if isByteType(t.Elem()) {
			s := v.(SliceVal)
			if s.Obj != nil {
				e.bcopy(dst, *off, s.Len, s.Obj.cont, s.Off)
			}
			*off = tb.Add(*off, s.Len)
			return
		}
		for _, x := range v.([]Value) {
			e.binEncode(t.Elem(), x, dst, off, little)
		}
	default:
		e.unsupported("binary.Write of %v", T)
	}
}

func (e *Eng) newError(msg string) Value {
	T := e.namedType("errors", "errorString")
	var s Value = Struct{msg}
	return Iface{T: types.NewPointer(T), V: &s}
}

func init() {
	reg := func(name string, f intrinsic) { intrinsics[name] = f }

	// ---- encoding/binary ----
	reg("encoding/binary.Read", func(fr *frame, a []Value) Value {
		e := fr.e
		r, order, data := a[0].(Iface), a[1], a[2].(Iface)
		little := isLittle(order)
		if data.T == nil {
			return e.newError("binary.Read: invalid type nil")
		}
		var T types.Type
		var addr *Value
		switch t := data.T.Underlying().(type) {
		case *types.Pointer:
			T = t.Elem()
			p, ok := data.V.(*Value)
			if !ok || p == nil {
				e.throw("binary.Read: nil pointer", token.NoPos)
			}
			addr = p
		case *types.Slice:
			T = t
			v := data.V
			addr = &v
		default:
			return e.newError("binary.Read: invalid type")
		}
		size, ok := e.binSize(T, *addr)
		if !ok {
			return e.newError("binary.Read: invalid type")
		}
		e.allocCheck(size, fr.callPos)
		buf := SliceVal{e.newObj(size, "binread"), e.tb.I64(0), size, size}
		_, err := e.readFull(fr, r, buf)
		if !isNilIface(err) {
			return err
		}
		off := e.tb.I64(0)
		e.binDecode(T, addr, buf, &off, little)
		return Iface{}
	})
	reg("encoding/binary.Write", func(fr *frame, a []Value) Value {
		e := fr.e
		w, order, data := a[0].(Iface), a[1], a[2].(Iface)
		little := isLittle(order)
		if data.T == nil {
			return e.newError("binary.Write: invalid type nil")
		}
		T := data.T
		v := data.V
		if pt, ok := T.Underlying().(*types.Pointer); ok {
			T = pt.Elem()
			p, ok := v.(*Value)
			if !ok || p == nil {
				return e.newError("binary.Write: nil pointer")
			}
			v = *p
		}
		size, ok := e.binSize(T, v)
		if !ok {
			return e.newError("binary.Write: some values are not fixed-sized")
		}
		o := e.newObj(size, "binwrite")
		off := e.tb.I64(0)
		e.binEncode(T, v, o, &off, little)
		res := e.callMethod(fr, w, "Write", SliceVal{o, e.tb.I64(0), size, size}).(Tuple)
		return res[1]
	})
	reg("encoding/binary.Size", func(fr *frame, a []Value) Value {
		e := fr.e
		data := a[0].(Iface)
		if data.T == nil {
			return e.tb.I64(-1)
		}
		T := data.T
		v := data.V
		if pt, ok := T.Underlying().(*types.Pointer); ok {
			T = pt.Elem()
			if p, ok := v.(*Value); ok && p != nil {
				v = *p
			} else {
				v = nil
			}
		}
		size, ok := e.binSize(T, v)
		if !ok {
			return e.tb.I64(-1)
		}
		return size
	})
	for _, ord := range []struct {
		name   string
		little bool
	}{{"littleEndian", true}, {"bigEndian", false}} {
		ord := ord
		for _, w := range []int{16, 32, 64} {
			w := w
			n := int64(w / 8)
			reg(fmt.Sprintf("(encoding/binary.%s).Uint%d", ord.name, w), func(fr *frame, a []Value) Value {
				e := fr.e
				b := a[1].(SliceVal)
				if !e.Decide(e.tb.Sle(e.tb.I64(n), b.Len)) {
					e.throw("index out of range", fr.callPos)
				}
				bs := make([]*Term, n)
				for i := range bs {
					bs[i] = e.sliceAt(b, e.tb.I64(int64(i)))
				}
				return e.assemble(bs, ord.little)
			})
			reg(fmt.Sprintf("(encoding/binary.%s).PutUint%d", ord.name, w), func(fr *frame, a []Value) Value {
				e := fr.e
				b := a[1].(SliceVal)
				if !e.Decide(e.tb.Sle(e.tb.I64(n), b.Len)) {
					e.throw("index out of range", fr.callPos)
				}
				for i, x := range e.split(a[2].(*Term), ord.little) {
					e.bwrite(b.Obj, e.tb.Add(b.Off, e.tb.I64(int64(i))), x)
				}
				return nil
			})
			reg(fmt.Sprintf("(encoding/binary.%s).AppendUint%d", ord.name, w), func(fr *frame, a []Value) Value {
				e := fr.e
				b := a[1].(SliceVal)
				src := e.termsSlice(e.split(a[2].(*Term), ord.little), "appenduint")
				return e.appendBytes(b, src)
			})
		}
	}

	// ---- bytes.Buffer (write side; the read side runs from source) ----
	reg("(*bytes.Buffer).Write", func(fr *frame, a []Value) Value {
		e := fr.e
		p := a[1].(SliceVal)
		e.bufWrite(a[0], p)
		return Tuple{p.Len, Iface{}}
	})
	reg("(*bytes.Buffer).WriteString", func(fr *frame, a []Value) Value {
		e := fr.e
		p := e.strView(a[1])
		e.bufWrite(a[0], p)
		return Tuple{p.Len, Iface{}}
	})
	reg("(*bytes.Buffer).WriteByte", func(fr *frame, a []Value) Value {
		e := fr.e
		e.bufWrite(a[0], e.termsSlice([]*Term{a[1].(*Term)}, "byte"))
		return Iface{}
	})
	reg("(*bytes.Buffer).Grow", func(fr *frame, a []Value) Value {
		e := fr.e
		n := a[1].(*Term)
		if !e.Decide(e.tb.Sle(e.tb.I64(0), n)) {
			panic(goPanic{val: Iface{T: types.Typ[types.String], V: "bytes.Buffer.Grow: negative count"}, msg: "bytes.Buffer.Grow: negative count", site: "(*bytes.Buffer).Grow"})
		}
		return nil
	})
	reg("(*bytes.Buffer).ReadFrom", func(fr *frame, a []Value) Value {
		e := fr.e
		data, err := e.drain(fr, a[1].(Iface))
		e.bufWrite(a[0], data)
		return Tuple{data.Len, err}
	})

	// ---- io ----
	reg("io.Copy", func(fr *frame, a []Value) Value {
		e := fr.e
		dst, src := a[0].(Iface), a[1].(Iface)
		if src.T == nil || dst.T == nil {
			e.throw("nil pointer dereference (io.Copy on nil interface)", fr.callPos)
		}
		if e.hasMethod(src.T, "WriteTo") {
			return e.callMethod(fr, src, "WriteTo", dst)
		}
		if e.hasMethod(dst.T, "ReadFrom") {
			return e.callMethod(fr, dst, "ReadFrom", src)
		}
		data, rerr := e.drain(fr, src)
		res := e.callMethod(fr, dst, "Write", data).(Tuple)
		nw, werr := res[0].(*Term), res[1]
		if !isNilIface(werr) {
			return Tuple{nw, werr}
		}
		if !e.Decide(e.tb.Eq(nw, data.Len)) {
			return Tuple{nw, e.globalVal("io", "ErrShortWrite")}
		}
		return Tuple{nw, rerr}
	})
	reg("io.ReadAll", func(fr *frame, a []Value) Value {
		e := fr.e
		data, err := e.drain(fr, a[0].(Iface))
		return Tuple{data, err}
	})
	reg("io.ReadFull", func(fr *frame, a []Value) Value {
		e := fr.e
		n, err := e.readFull(fr, a[0].(Iface), a[1].(SliceVal))
		return Tuple{n, err}
	})
	reg("(io.discard).ReadFrom", func(fr *frame, a []Value) Value {
		e := fr.e
		data, err := e.drain(fr, a[1].(Iface))
		return Tuple{data.Len, err}
	})
	reg("(io.discard).Write", func(fr *frame, a []Value) Value {
		return Tuple{a[1].(SliceVal).Len, Iface{}}
	})

	// ---- log / os ----
	exit := func(name string) intrinsic {
		return func(fr *frame, a []Value) Value {
			caller := "?"
			if fr.caller != nil {
				caller = fr.caller.fn.String()
			}
			panic(pathEnd{kind: endExit, msg: name + " called from " + caller, site: caller})
		}
	}
	for _, n := range []string{"log.Fatal", "log.Fatalf", "log.Fatalln", "os.Exit", "(*log.Logger).Fatal", "(*log.Logger).Fatalf", "(*log.Logger).Fatalln"} {
		reg(n, exit(n))
	}
	nop := func(fr *frame, a []Value) Value { return nil }
	for _, n := range []string{"log.Print", "log.Printf", "log.Println", "(*log.Logger).Printf", "(*log.Logger).Println", "(*log.Logger).Print"} {
		reg(n, nop)
	}
	for _, n := range []string{"log.Panic", "log.Panicf", "log.Panicln"} {
		n := n
		reg(n, func(fr *frame, a []Value) Value {
			panic(goPanic{val: Iface{T: types.Typ[types.String], V: n}, msg: n, site: n})
		})
	}

	// ---- internal/bytealg (assembly) ----
	indexByte := func(fr *frame, v SliceVal, c *Term) Value {
		e := fr.e
		tb := e.tb
		if v.Obj == nil {
			return tb.I64(-1)
		}
		if !v.Len.IsConst() {
			v.Len = tb.Const(64, e.concretize(v.Len, 1<<12))
		}
		r := tb.I64(-1)
		for i := int64(v.Len.C) - 1; i >= 0; i-- {
			r = tb.Ite(tb.Eq(e.sliceAt(v, tb.I64(i)), c), tb.I64(i), r)
		}
		return r
	}
	reg("internal/bytealg.IndexByte", func(fr *frame, a []Value) Value { return indexByte(fr, a[0].(SliceVal), a[1].(*Term)) })
	reg("internal/bytealg.IndexByteString", func(fr *frame, a []Value) Value {
		return indexByte(fr, fr.e.strView(a[0]), a[1].(*Term))
	})
	reg("internal/bytealg.Equal", func(fr *frame, a []Value) Value {
		e := fr.e
		x, y := a[0].(SliceVal), a[1].(SliceVal)
		if x.Obj == nil || y.Obj == nil {
			return e.tb.Eq(x.Len, y.Len)
		}
		return e.bytesEq(x, y)
	})
	reg("bytes.Equal", func(fr *frame, a []Value) Value {
		e := fr.e
		x, y := a[0].(SliceVal), a[1].(SliceVal)
		if x.Obj == nil || y.Obj == nil {
			return e.tb.Eq(x.Len, y.Len)
		}
		return e.bytesEq(x, y)
	})

	// ---- sort.Slice / sort.SliceStable (reflection based swapper): stable insertion sort over the
	// engine's slice, calling the real less closure; comparisons on symbolic data fork
	sortSlice := func(fr *frame, a []Value) Value {
		e := fr.e
		x := a[0].(Iface)
		less := a[1]
		switch s := x.V.(type) {
		case []Value:
			if len(s) > 64 {
				e.unsupported("sort.Slice of more than 64 elements")
			}
			lt := func(i, j int) bool {
				r := e.call(fr, fr.callPos, less, []Value{e.tb.I64(int64(i)), e.tb.I64(int64(j))}).(*Term)
				return e.Decide(r)
			}
			for i := 1; i < len(s); i++ {
				for j := i; j > 0 && lt(j, j-1); j-- {
					tmp := e.copyVal(s[j])
					e.storeSlot(&s[j], s[j-1])
					e.storeSlot(&s[j-1], tmp)
				}
			}
			return nil
		case nil:
			return nil
		}
		e.unsupported("sort.Slice of %T", x.V)
		return nil
	}
	reg("sort.Slice", sortSlice)
	reg("sort.SliceStable", sortSlice)
	reg("bytes.Compare", func(fr *frame, a []Value) Value {
		e := fr.e
		tb := e.tb
		x, y := a[0].(SliceVal), a[1].(SliceVal)
		if !x.Len.IsConst() {
			x.Len = tb.Const(64, e.concretize(x.Len, 4096))
		}
		if !y.Len.IsConst() {
			y.Len = tb.Const(64, e.concretize(y.Len, 4096))
		}
		n := x.Len.C
		if y.Len.C < n {
			n = y.Len.C
		}
		r := tb.I64(0)
		if x.Len.C < y.Len.C {
			r = tb.I64(-1)
		} else if x.Len.C > y.Len.C {
			r = tb.I64(1)
		}
		for i := int64(n) - 1; i >= 0; i-- {
			xb, yb := e.sliceAt(x, tb.I64(i)), e.sliceAt(y, tb.I64(i))
			r = tb.Ite(tb.Ult(xb, yb), tb.I64(-1), tb.Ite(tb.Ult(yb, xb), tb.I64(1), r))
		}
		return r
	})
	// bytes.Index / strings.Index (assembly + Rabin-Karp underneath): first position at which the
	// needle occurs, as an ite chain over the concrete-length haystack
	index := func(fr *frame, h, n SliceVal) Value {
		e := fr.e
		tb := e.tb
		if !h.Len.IsConst() {
			h.Len = tb.Const(64, e.concretize(h.Len, 1<<12))
		}
		if !n.Len.IsConst() {
			n.Len = tb.Const(64, e.concretize(n.Len, 1<<12))
		}
		hl, nl := int64(h.Len.C), int64(n.Len.C)
		if nl == 0 {
			return tb.I64(0)
		}
		r := tb.I64(-1)
		for i := hl - nl; i >= 0; i-- {
			var eqs []*Term
			for j := int64(0); j < nl; j++ {
				eqs = append(eqs, tb.Eq(e.sliceAt(h, tb.I64(i+j)), e.sliceAt(n, tb.I64(j))))
			}
			r = tb.Ite(tb.And(eqs...), tb.I64(i), r)
		}
		return r
	}
	view := func(fr *frame, v Value) SliceVal {
		if s, ok := v.(SliceVal); ok {
			if s.Obj == nil {
				return fr.e.concSlice(nil)
			}
			return s
		}
		s := fr.e.strView(v)
		if s.Obj == nil {
			return fr.e.concSlice(nil)
		}
		return s
	}
	for _, n := range []string{"bytes.Index", "strings.Index", "internal/bytealg.Index", "internal/bytealg.IndexString"} {
		reg(n, func(fr *frame, a []Value) Value { return index(fr, view(fr, a[0]), view(fr, a[1])) })
	}
	// strings.ToLower / ToUpper / bytes.ToLower / ToUpper: exact for all-ASCII operands of concrete
	// length (the case bit of A-Z / a-z); anything else runs the real code
	for _, n := range []string{"strings.ToLower", "strings.ToUpper", "bytes.ToLower", "bytes.ToUpper"} {
		n := n
		reg(n, func(fr *frame, a []Value) Value {
			e := fr.e
			tb := e.tb
			x := view(fr, a[0])
			if !x.Len.IsConst() || x.Len.C > 256 {
				return e.callReal(fr, n, a)
			}
			if _, conc := e.concBytes(x); conc {
				return e.callReal(fr, n, a)
			}
			ascii := tb.T
			for i := uint64(0); i < x.Len.C; i++ {
				ascii = tb.And(ascii, tb.Ult(e.sliceAt(x, tb.Const(64, i)), tb.Const(8, 0x80)))
			}
			if !e.Decide(ascii) {
				return e.callReal(fr, n, a)
			}
			lo, hi, d := uint64('A'), uint64('Z'), uint64(32)
			upper := strings.HasSuffix(n, "ToUpper")
			if upper {
				lo, hi = 'a', 'z'
			}
			out := make([]*Term, x.Len.C)
			for i := range out {
				c := e.sliceAt(x, tb.Const(64, uint64(i)))
				in := tb.And(tb.Ule(tb.Const(8, lo), c), tb.Ule(c, tb.Const(8, hi)))
				if upper {
					out[i] = tb.Ite(in, tb.Sub(c, tb.Const(8, d)), c)
				} else {
					out[i] = tb.Ite(in, tb.Add(c, tb.Const(8, d)), c)
				}
			}
			r := e.termsSlice(out, "tolower")
			if strings.HasPrefix(n, "strings.") {
				return e.strVal(r)
			}
			return r
		})
	}
	// strings.TrimLeft / TrimRight / Trim (and bytes.*) with a concrete ASCII cutset on an operand of
	// concrete length: the number of trimmed characters is decided one position at a time (forks)
	for _, n := range []string{"strings.TrimLeft", "strings.TrimRight", "strings.Trim", "bytes.TrimLeft", "bytes.TrimRight", "bytes.Trim"} {
		n := n
		reg(n, func(fr *frame, a []Value) Value {
			e := fr.e
			tb := e.tb
			x := view(fr, a[0])
			cut, conc := e.concBytes(e.strView(a[1]))
			if !conc || !x.Len.IsConst() || x.Len.C > 256 {
				return e.callReal(fr, n, a)
			}
			if _, c := e.concBytes(x); c {
				return e.callReal(fr, n, a)
			}
			for _, c := range cut {
				if c >= 0x80 {
					return e.callReal(fr, n, a)
				}
			}
			inSet := func(c *Term) *Term {
				r := tb.F
				for _, k := range cut {
					r = tb.Or(r, tb.Eq(c, tb.Const(8, uint64(k))))
				}
				return r
			}
			// operands with non-ASCII bytes go through the real code (multi-byte runes)
			ascii := tb.T
			for i := uint64(0); i < x.Len.C; i++ {
				ascii = tb.And(ascii, tb.Ult(e.sliceAt(x, tb.Const(64, i)), tb.Const(8, 0x80)))
			}
			if !e.Decide(ascii) {
				return e.callReal(fr, n, a)
			}
			lo, hi := uint64(0), x.Len.C
			if !strings.HasSuffix(n, "TrimRight") {
				for lo < hi && e.Decide(inSet(e.sliceAt(x, tb.Const(64, lo)))) {
					lo++
				}
			}
			if !strings.HasSuffix(n, "TrimLeft") {
				for hi > lo && e.Decide(inSet(e.sliceAt(x, tb.Const(64, hi-1)))) {
					hi--
				}
			}
			r := SliceVal{x.Obj, tb.Add(x.Off, tb.Const(64, lo)), tb.Const(64, hi-lo), tb.Const(64, hi-lo)}
			if strings.HasPrefix(n, "strings.") {
				return e.strVal(r)
			}
			return r
		})
	}
	// bytes.EqualFold / strings.EqualFold: exact shortcuts for identical strings and for all-ASCII
	// operands (where simple folding is the A-Z/a-z case bit); anything else runs the real code
	for _, n := range []string{"bytes.EqualFold", "strings.EqualFold"} {
		n := n
		reg(n, func(fr *frame, a []Value) Value {
			e := fr.e
			tb := e.tb
			x, y := view(fr, a[0]), view(fr, a[1])
			if e.Decide(e.bytesEq(x, y)) {
				return tb.T
			}
			if x.Len.IsConst() && y.Len.IsConst() && x.Len.C <= 256 && y.Len.C <= 256 {
				ascii := tb.T
				for i := uint64(0); i < x.Len.C; i++ {
					ascii = tb.And(ascii, tb.Ult(e.sliceAt(x, tb.Const(64, i)), tb.Const(8, 0x80)))
				}
				for i := uint64(0); i < y.Len.C; i++ {
					ascii = tb.And(ascii, tb.Ult(e.sliceAt(y, tb.Const(64, i)), tb.Const(8, 0x80)))
				}
				if e.Decide(ascii) {
					if x.Len.C != y.Len.C {
						return tb.F
					}
					lower := func(c *Term) *Term {
						up := tb.And(tb.Ule(tb.Const(8, 'A'), c), tb.Ule(c, tb.Const(8, 'Z')))
						return tb.Ite(up, tb.Add(c, tb.Const(8, 32)), c)
					}
					r := tb.T
					for i := uint64(0); i < x.Len.C; i++ {
						ci := tb.Const(64, i)
						r = tb.And(r, tb.Eq(lower(e.sliceAt(x, ci)), lower(e.sliceAt(y, ci))))
					}
					return r
				}
			}
			return e.callReal(fr, n, a)
		})
	}
	reg("internal/bytealg.MakeNoZero", func(fr *frame, a []Value) Value {
		e := fr.e
		n := a[0].(*Term)
		e.allocCheck(n, fr.callPos)
		return SliceVal{e.newObj(n, "makenozero"), e.tb.I64(0), n, n}
	})
	reg("internal/bytealg.Compare", func(fr *frame, a []Value) Value { return intrinsics["bytes.Compare"](fr, a) })

	// ---- OS stub: the immutable-flag probe of efi/attr (os.OpenFile + ioctl on the real file) ----
	reg("github.com/foxboron/go-uefi/efi/attr.GetAttr", func(fr *frame, a []Value) Value {
		e := fr.e
		p := e.path
		p.uniq++
		fail := e.symScalar(fmt.Sprintf("os.getattr.fail#%d", p.uniq), 8)
		p.inputs = p.inputs[:len(p.inputs)-1] // environment, not a replay input
		flags := e.symScalar(fmt.Sprintf("os.getattr.flags#%d", p.uniq), 32)
		p.inputs = p.inputs[:len(p.inputs)-1]
		switch {
		case e.Decide(e.tb.Eq(fail, e.tb.Const(8, 0))):
			return Tuple{flags, Iface{}}
		case e.Decide(e.tb.Eq(fail, e.tb.Const(8, 1))):
			return Tuple{e.tb.Const(32, 0), e.globalVal("io/fs", "ErrNotExist")}
		}
		return Tuple{e.tb.Const(32, 0), e.newError("ioctl: operation not supported")}
	})
	reg("github.com/foxboron/go-uefi/efi/attr.SetAttr", func(fr *frame, a []Value) Value {
		e := fr.e
		p := e.path
		p.uniq++
		fail := e.symScalar(fmt.Sprintf("os.setattr.fail#%d", p.uniq), 8)
		p.inputs = p.inputs[:len(p.inputs)-1]
		if e.Decide(e.tb.Eq(fail, e.tb.Const(8, 0))) {
			return Iface{}
		}
		return e.newError("ioctl: operation not permitted")
	})

	// ---- strings ----
	reg("strings.ReplaceAll", func(fr *frame, a []Value) Value {
		e := fr.e
		old, ok1 := a[1].(string)
		nw, ok2 := a[2].(string)
		if !ok1 || !ok2 {
			e.unsupported("strings.ReplaceAll with symbolic pattern")
		}
		if s, ok := a[0].(string); ok {
			return strings.ReplaceAll(s, old, nw)
		}
		if len(old) != 1 {
			e.unsupported("strings.ReplaceAll on a symbolic string with a multi-byte pattern")
		}
		v := e.strView(a[0])
		if !v.Len.IsConst() {
			v.Len = e.tb.Const(64, e.concretize(v.Len, 1<<12))
		}
		var out []*Term
		for i := uint64(0); i < v.Len.C; i++ {
			c := e.sliceAt(v, e.tb.Const(64, i))
			if e.Decide(e.tb.Eq(c, e.tb.Const(8, uint64(old[0])))) {
				out = append(out, e.constBytes(nw)...)
			} else {
				out = append(out, c)
			}
		}
		return e.strVal(e.termsSlice(out, "replace"))
	})

	// ---- errors ----
	reg("github.com/pkg/errors.callers", func(fr *frame, a []Value) Value { return NilPtr{} })
	reg("errors.Is", func(fr *frame, a []Value) Value { return fr.e.errorsIs(fr, a[0], a[1], 0) })
	reg("errors.As", func(fr *frame, a []Value) Value { fr.e.unsupported("errors.As"); return nil })
	reg("fmt.Errorf", func(fr *frame, a []Value) Value {
		e := fr.e
		format, _ := a[0].(string)
		args := a[1].([]Value)
		// find the operand of %w
		argi := 0
		var wrapped Value
		for i := 0; i < len(format); i++ {
			if format[i] != '%' {
				continue
			}
			i++
			for i < len(format) && strings.ContainsRune("+-# 0123456789.", rune(format[i])) {
				i++
			}
			if i >= len(format) {
				break
			}
			if format[i] == '%' {
				continue
			}
			if format[i] == 'w' && argi < len(args) {
				wrapped = args[argi]
			}
			argi++
		}
		if wrapped != nil {
			if wi, ok := wrapped.(Iface); ok && wi.T != nil && e.hasMethod(wi.T, "Error") {
				T := e.namedType("fmt", "wrapError")
				var s Value = Struct{"fmt.Errorf: " + format, wi}
				return Iface{T: types.NewPointer(T), V: &s}
			}
		}
		return e.newError("fmt.Errorf: " + format)
	})
}

func (e *Eng) errorsIs(fr *frame, err, target Value, depth int) *Term {
	tb := e.tb
	if depth > 32 {
		e.unsupported("errors.Is: chain too deep")
	}
	ei := err.(Iface)
	ti := target.(Iface)
	if ei.T == nil || ti.T == nil {
		return tb.Bool(ei.T == nil && ti.T == nil)
	}
	errT := types.Universe.Lookup("error").Type()
	for d := 0; d < 32; d++ {
		if types.Comparable(ti.T) && types.Identical(ei.T, ti.T) {
			if e.Decide(e.equal(errT, ei, ti)) {
				return tb.T
			}
		}
		if f := e.lookupMethod(ei.T, "Is"); f != nil && f.Signature.Params().Len() == 1 {
			if e.Decide(e.callSSA(fr, token.NoPos, f, []Value{ei.V, ti}, nil).(*Term)) {
				return tb.T
			}
		}
		f := e.lookupMethod(ei.T, "Unwrap")
		if f == nil {
			return tb.F
		}
		res := f.Signature.Results()
		if res.Len() != 1 {
			return tb.F
		}
		r := e.callSSA(fr, token.NoPos, f, []Value{ei.V}, nil)
		switch rv := r.(type) {
		case Iface:
			if rv.T == nil {
				return tb.F
			}
			ei = rv
		case []Value:
			for _, x := range rv {
				if xi := x.(Iface); xi.T != nil {
					if e.errorsIs(fr, xi, ti, depth+1).IsTrue() {
						return tb.T
					}
				}
			}
			return tb.F
		default:
			return tb.F
		}
	}
	return tb.F
}
