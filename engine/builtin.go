package main

import (
	"fmt"
	"go/token"
	"go/types"

	"golang.org/x/tools/go/ssa"
)

// allocCheck enforces the allocation-size obligation of the current harness, if any:
// make([]byte, n) must satisfy n <= A*|input| + B.
func (e *Eng) allocCheck(n *Term, pos token.Pos) {
	p := e.path
	if p == nil || p.allocLimit == nil || e.initMode > 0 {
		return
	}
	ok := e.tb.Ule(n, p.allocLimit)
	if ok.IsTrue() {
		return
	}
	if !e.Decide(ok) {
		// prefer a witness that is unmistakable in the native replay (hundreds of megabytes)
		big := e.tb.And(e.tb.Ule(e.tb.I64(1<<28), n), e.tb.Ule(n, e.tb.I64(1<<32)))
		if r, _ := e.solver.Check([]*Term{big}, nil); r == Sat {
			e.assertPC(big)
		}
		panic(pathEnd{kind: endStop, msg: "allocation above bound", site: "alloc:" + e.funcAt(pos)})
	}
}

func (e *Eng) funcAt(pos token.Pos) string {
	return e.pos(pos)
}

func (e *Eng) min64(a, b *Term) *Term { return e.tb.Ite(e.tb.Slt(a, b), a, b) }

// appendBytes implements append(s, src...) for byte slices.
func (e *Eng) appendBytes(s SliceVal, src SliceVal) SliceVal {
	tb := e.tb
	if src.Len.IsConst() && src.Len.C == 0 {
		if s.Obj == nil && src.Obj != nil {
			// append([]byte(nil), empty...) stays nil
		}
		return s
	}
	newLen := tb.Add(s.Len, src.Len)
	inPlace := tb.F
	if s.Obj != nil && s.Len != s.Cap {
		inPlace = tb.Sle(newLen, s.Cap)
	}
	if s.Obj != nil && e.Decide(inPlace) {
		e.bcopy(s.Obj, tb.Add(s.Off, s.Len), src.Len, src.Obj.cont, src.Off)
		return SliceVal{s.Obj, s.Off, newLen, s.Cap}
	}
	o := e.newObj(newLen, "append")
	if s.Obj != nil {
		e.bcopy(o, tb.I64(0), s.Len, s.Obj.cont, s.Off)
	}
	e.bcopy(o, s.Len, src.Len, src.Obj.cont, src.Off)
	return SliceVal{o, tb.I64(0), newLen, newLen}
}

func (e *Eng) copyBytes(dst, src SliceVal) *Term {
	// resolve the minimum by a decision: keeps copy lengths free of ite terms
	var n *Term
	if dst.Len == src.Len || e.Decide(e.tb.Sle(dst.Len, src.Len)) {
		n = dst.Len
	} else {
		n = src.Len
	}
	if dst.Obj == nil || src.Obj == nil {
		return e.tb.I64(0)
	}
	e.bcopy(dst.Obj, dst.Off, n, src.Obj.cont, src.Off)
	return n
}

func (e *Eng) callBuiltin(caller *frame, pos token.Pos, fn *ssa.Builtin, args []Value) Value {
	tb := e.tb
	switch fn.Name() {
	case "append":
		if len(args) == 1 {
			return args[0]
		}
		switch s := args[0].(type) {
		case SliceVal:
			var src SliceVal
			switch a := args[1].(type) {
			case SliceVal:
				src = a
			case string, SymStr:
				src = e.strView(a)
			default:
				panic(fmt.Sprintf("append bytes from %T", a))
			}
			if src.Obj == nil {
				return s
			}
			return e.appendBytes(s, src)
		case []Value:
			src := args[1].([]Value)
			if len(src) == 0 {
				return s
			}
			// undo logging for in-place appends into shared backing arrays
			if len(s)+len(src) <= cap(s) {
				full := s[:len(s)+len(src)]
				for i := len(s); i < len(full); i++ {
					e.undo = append(e.undo, undoRec{slot: &full[i], old: full[i]})
				}
			}
			out := s
			for _, v := range src {
				out = append(out, e.copyVal(v))
			}
			return out
		}
		panic(fmt.Sprintf("append to %T", args[0]))

	case "copy":
		switch d := args[0].(type) {
		case SliceVal:
			var src SliceVal
			switch a := args[1].(type) {
			case SliceVal:
				src = a
			case string, SymStr:
				src = e.strView(a)
			}
			return e.copyBytes(d, src)
		case []Value:
			src := args[1].([]Value)
			n := len(d)
			if len(src) < n {
				n = len(src)
			}
			tmp := make([]Value, n)
			for i := 0; i < n; i++ {
				tmp[i] = e.copyVal(src[i])
			}
			for i := 0; i < n; i++ {
				e.storeSlot(&d[i], tmp[i])
			}
			return tb.I64(int64(n))
		}
		panic(fmt.Sprintf("copy to %T", args[0]))

	case "len":
		switch x := args[0].(type) {
		case SliceVal:
			return x.Len
		case string, SymStr:
			return e.strLen(x)
		case []Value:
			return tb.I64(int64(len(x)))
		case *MapVal:
			if x == nil {
				return tb.I64(0)
			}
			return tb.I64(int64(len(x.ents)))
		case Array:
			return tb.I64(int64(len(x)))
		case BArr:
			return x.Obj.size
		case *Value:
			switch a := (*x).(type) {
			case Array:
				return tb.I64(int64(len(a)))
			case BArr:
				return a.Obj.size
			}
		case nil:
			return tb.I64(0)
		}
		panic(fmt.Sprintf("len of %T", args[0]))

	case "cap":
		switch x := args[0].(type) {
		case SliceVal:
			return x.Cap
		case []Value:
			return tb.I64(int64(cap(x)))
		case Array:
			return tb.I64(int64(len(x)))
		case BArr:
			return x.Obj.size
		case *Value:
			switch a := (*x).(type) {
			case Array:
				return tb.I64(int64(len(a)))
			case BArr:
				return a.Obj.size
			}
		}
		panic(fmt.Sprintf("cap of %T", args[0]))

	case "delete":
		e.mapDelete(args[0].(*MapVal), args[1])
		return nil

	case "print", "println":
		return nil

	case "recover":
		return e.doRecover(caller)

	case "panic":
		panic(goPanic{val: args[0], msg: "panic: " + e.describe(args[0]), site: e.pos(pos)})

	case "min", "max":
		r := args[0]
		for _, a := range args[1:] {
			x, ok1 := r.(*Term)
			y, ok2 := a.(*Term)
			if !ok1 || !ok2 {
				e.unsupported("min/max on %T", r)
			}
			_, signed, _ := intWidth(fn.Type().(*types.Signature).Params().At(0).Type())
			var lt *Term
			if signed {
				lt = tb.Slt(x, y)
			} else {
				lt = tb.Ult(x, y)
			}
			if fn.Name() == "min" {
				r = tb.Ite(lt, x, y)
			} else {
				r = tb.Ite(lt, y, x)
			}
		}
		return r

	case "clear":
		switch x := args[0].(type) {
		case *MapVal:
			for _, k := range append([]string(nil), x.order...) {
				e.mapDelete(x, x.ents[k].k)
			}
			return nil
		case SliceVal:
			if x.Obj != nil {
				z := e.newObj(x.Len, "zero")
				e.bcopy(x.Obj, x.Off, x.Len, z.cont, tb.I64(0))
			}
			return nil
		case []Value:
			e.unsupported("clear of non-byte slice")
		}
		panic(fmt.Sprintf("clear of %T", args[0]))

	case "ssa:wrapnilchk":
		recv := args[0]
		if _, isNil := recv.(NilPtr); isNil {
			e.throw("value method called using nil pointer", pos)
		}
		if p, ok := recv.(*Value); ok && p == nil {
			e.throw("value method called using nil pointer", pos)
		}
		return recv

	case "String": // unsafe.String(ptr, len)
		n := e.idx64(args[1].(*Term), fn.Type().(*types.Signature).Params().At(1).Type())
		switch p := args[0].(type) {
		case BytePtr:
			return e.strVal(SliceVal{p.Obj, p.Idx, n, n})
		case NilPtr:
			return ""
		}
		e.unsupported("unsafe.String of %T", args[0])
	case "Slice": // unsafe.Slice(ptr, len)
		n := e.idx64(args[1].(*Term), fn.Type().(*types.Signature).Params().At(1).Type())
		switch p := args[0].(type) {
		case BytePtr:
			return SliceVal{p.Obj, p.Idx, n, n}
		case NilPtr:
			return e.nilSlice()
		}
		e.unsupported("unsafe.Slice of %T", args[0])
	case "SliceData":
		if s, ok := args[0].(SliceVal); ok {
			if s.Obj == nil {
				return NilPtr{}
			}
			return BytePtr{s.Obj, s.Off}
		}
		e.unsupported("unsafe.SliceData of %T", args[0])
	case "StringData":
		v := e.strView(args[0])
		return BytePtr{v.Obj, v.Off}
	case "Sizeof":
		T := fn.Type().(*types.Signature).Params().At(0).Type()
		return tb.Const(64, uint64(types.SizesFor("gc", "amd64").Sizeof(T)))
	case "Alignof":
		T := fn.Type().(*types.Signature).Params().At(0).Type()
		return tb.Const(64, uint64(types.SizesFor("gc", "amd64").Alignof(T)))

	case "close", "real", "imag", "complex":
		e.unsupported("builtin %s", fn.Name())
	}
	panic("unknown built-in: " + fn.Name())
}
