package main

// Hash-consed SMT term DAG with a local simplifier.
//
// Sorts: W == 0 is Bool, W in 1..64 is (_ BitVec W), W == -1 is
// (Array (_ BitVec 64) (_ BitVec 8)).  All Go scalars are bit-vectors of
// their exact width; signedness lives in the operation, as in Go's SSA.

import (
	"fmt"
	"math/bits"
	"sort"
	"strconv"
	"strings"
)

type Op uint8

const (
	OpConst Op = iota
	OpVar
	OpArrVar
	OpSelect
	OpAdd
	OpSub
	OpMul
	OpUDiv
	OpURem
	OpSDiv
	OpSRem
	OpAnd
	OpOr
	OpXor
	OpNot
	OpNeg
	OpShl
	OpLShr
	OpAShr
	OpConcat
	OpExtract
	OpZExt
	OpSExt
	OpEq
	OpUlt
	OpUle
	OpSlt
	OpSle
	OpIte
	OpBAnd
	OpBOr
	OpBNot
	OpUF
)

var opNames = map[Op]string{
	OpSelect: "select", OpAdd: "bvadd", OpSub: "bvsub", OpMul: "bvmul", OpUDiv: "bvudiv", OpURem: "bvurem",
	OpSDiv: "bvsdiv", OpSRem: "bvsrem", OpAnd: "bvand", OpOr: "bvor", OpXor: "bvxor", OpNot: "bvnot",
	OpNeg: "bvneg", OpShl: "bvshl", OpLShr: "bvlshr", OpAShr: "bvashr", OpConcat: "concat",
	OpEq: "=", OpUlt: "bvult", OpUle: "bvule", OpSlt: "bvslt", OpSle: "bvsle", OpIte: "ite",
	OpBAnd: "and", OpBOr: "or", OpBNot: "not",
}

type Term struct {
	Op   Op
	W    int
	A    []*Term
	C    uint64 // constant value; for Extract: hi<<8|lo; for ZExt/SExt unused
	Name string
	ID   int
}

func (t *Term) IsConst() bool { return t.Op == OpConst }
func (t *Term) IsTrue() bool  { return t.Op == OpConst && t.W == 0 && t.C == 1 }
func (t *Term) IsFalse() bool { return t.Op == OpConst && t.W == 0 && t.C == 0 }

// Signed value of a constant.
func (t *Term) SInt() int64 {
	if t.W == 64 || t.W == 0 {
		return int64(t.C)
	}
	sh := uint(64 - t.W)
	return int64(t.C<<sh) >> sh
}

type TB struct {
	tab    map[string]*Term
	nextID int
	nvar   int
	T, F   *Term
}

func NewTB() *TB {
	b := &TB{tab: map[string]*Term{}}
	b.T = b.mk(OpConst, 0, nil, 1, "")
	b.F = b.mk(OpConst, 0, nil, 0, "")
	return b
}

func mask(w int) uint64 {
	if w >= 64 {
		return ^uint64(0)
	}
	return (uint64(1) << uint(w)) - 1
}

func (b *TB) mk(op Op, w int, a []*Term, c uint64, name string) *Term {
	var sb strings.Builder
	sb.WriteByte(byte(op))
	sb.WriteString(strconv.Itoa(w))
	sb.WriteByte(':')
	for _, x := range a {
		sb.WriteString(strconv.Itoa(x.ID))
		sb.WriteByte(',')
	}
	sb.WriteString(strconv.FormatUint(c, 16))
	sb.WriteByte(':')
	sb.WriteString(name)
	k := sb.String()
	if t, ok := b.tab[k]; ok {
		return t
	}
	t := &Term{Op: op, W: w, A: a, C: c, Name: name, ID: b.nextID}
	b.nextID++
	b.tab[k] = t
	return t
}

func (b *TB) Const(w int, v uint64) *Term {
	if w == 0 {
		if v != 0 {
			return b.T
		}
		return b.F
	}
	return b.mk(OpConst, w, nil, v&mask(w), "")
}
func (b *TB) Bool(v bool) *Term {
	if v {
		return b.T
	}
	return b.F
}
func (b *TB) I64(v int64) *Term { return b.Const(64, uint64(v)) }

func (b *TB) Var(name string, w int) *Term { return b.mk(OpVar, w, nil, 0, name) }
func (b *TB) ArrVar(name string) *Term     { return b.mk(OpArrVar, -1, nil, 0, name) }
func (b *TB) FreshVar(prefix string, w int) *Term {
	b.nvar++
	return b.Var(fmt.Sprintf("%s!%d", prefix, b.nvar), w)
}

func (b *TB) Select(arr, idx *Term) *Term {
	return b.mk(OpSelect, 8, []*Term{arr, idx}, 0, "")
}

func (b *TB) UF(name string, w int, args ...*Term) *Term {
	return b.mk(OpUF, w, append([]*Term(nil), args...), 0, name)
}

// ---- arithmetic ----

func (b *TB) Add(x, y *Term) *Term {
	w := x.W
	if x.IsConst() && y.IsConst() {
		return b.Const(w, x.C+y.C)
	}
	if x.IsConst() {
		x, y = y, x
	}
	if y.IsConst() {
		if y.C == 0 {
			return x
		}
		if x.Op == OpAdd && x.A[1].IsConst() {
			return b.Add(x.A[0], b.Const(w, x.A[1].C+y.C))
		}
		if x.Op == OpIte && x.A[1].IsConst() && x.A[2].IsConst() {
			return b.Ite(x.A[0], b.Add(x.A[1], y), b.Add(x.A[2], y))
		}
		return b.mk(OpAdd, w, []*Term{x, y}, 0, "")
	}
	// (a + c1) + (b + c2)
	if x.Op == OpAdd && x.A[1].IsConst() {
		return b.Add(b.Add(x.A[0], y), x.A[1])
	}
	if y.Op == OpAdd && y.A[1].IsConst() {
		return b.Add(b.Add(x, y.A[0]), y.A[1])
	}
	// x + (z - x) = z
	if y.Op == OpSub && y.A[1] == x {
		return y.A[0]
	}
	if x.Op == OpSub && x.A[1] == y {
		return x.A[0]
	}
	if x.ID > y.ID {
		x, y = y, x
	}
	return b.mk(OpAdd, w, []*Term{x, y}, 0, "")
}

func (b *TB) Sub(x, y *Term) *Term {
	w := x.W
	if x == y {
		return b.Const(w, 0)
	}
	if y.IsConst() {
		return b.Add(x, b.Const(w, -y.C))
	}
	if x.IsConst() && x.C == 0 {
		return b.Neg(y)
	}
	// (a + c) - y = (a - y) + c
	if x.Op == OpAdd && x.A[1].IsConst() {
		return b.Add(b.Sub(x.A[0], y), x.A[1])
	}
	// x - (a + c) = (x - a) - c
	if y.Op == OpAdd && y.A[1].IsConst() {
		return b.Add(b.Sub(x, y.A[0]), b.Const(w, -y.A[1].C))
	}
	// (a + y) - y = a
	if x.Op == OpAdd {
		if x.A[0] == y {
			return x.A[1]
		}
		if x.A[1] == y {
			return x.A[0]
		}
	}
	// x - (x - z) = z
	if y.Op == OpSub && y.A[0] == x {
		return y.A[1]
	}
	return b.mk(OpSub, w, []*Term{x, y}, 0, "")
}

func (b *TB) Neg(x *Term) *Term {
	if x.IsConst() {
		return b.Const(x.W, -x.C)
	}
	if x.Op == OpNeg {
		return x.A[0]
	}
	return b.mk(OpNeg, x.W, []*Term{x}, 0, "")
}

func (b *TB) Mul(x, y *Term) *Term {
	w := x.W
	if x.IsConst() && y.IsConst() {
		return b.Const(w, x.C*y.C)
	}
	if x.IsConst() {
		x, y = y, x
	}
	if y.IsConst() {
		if y.C == 0 {
			return y
		}
		if y.C == 1 {
			return x
		}
	}
	return b.mk(OpMul, w, []*Term{x, y}, 0, "")
}

func sx(v uint64, w int) int64 {
	sh := uint(64 - w)
	return int64(v<<sh) >> sh
}

func (b *TB) binConst(op Op, w int, x, y uint64) (uint64, bool) {
	switch op {
	case OpUDiv:
		if y == 0 {
			return mask(w), true
		}
		return x / y, true
	case OpURem:
		if y == 0 {
			return x, true
		}
		return x % y, true
	case OpSDiv:
		if y == 0 {
			return 0, false
		}
		return uint64(sx(x, w) / sx(y, w)), true
	case OpSRem:
		if y == 0 {
			return 0, false
		}
		return uint64(sx(x, w) % sx(y, w)), true
	case OpAnd:
		return x & y, true
	case OpOr:
		return x | y, true
	case OpXor:
		return x ^ y, true
	case OpShl:
		if y >= uint64(w) {
			return 0, true
		}
		return x << y, true
	case OpLShr:
		if y >= uint64(w) {
			return 0, true
		}
		return x >> y, true
	case OpAShr:
		if y >= uint64(w) {
			y = uint64(w - 1)
		}
		return uint64(sx(x, w) >> y), true
	}
	return 0, false
}

func (b *TB) Bin(op Op, x, y *Term) *Term {
	w := x.W
	switch op {
	case OpAdd:
		return b.Add(x, y)
	case OpSub:
		return b.Sub(x, y)
	case OpMul:
		return b.Mul(x, y)
	}
	if x.IsConst() && y.IsConst() {
		if v, ok := b.binConst(op, w, x.C, y.C); ok {
			return b.Const(w, v)
		}
	}
	switch op {
	case OpAnd:
		if x == y {
			return x
		}
		if x.IsConst() {
			x, y = y, x
		}
		if y.IsConst() {
			if y.C == 0 {
				return y
			}
			if y.C == mask(w) {
				return x
			}
			// and(zext(a), m) where m covers all of a's bits
			if x.Op == OpZExt && y.C&mask(x.A[0].W) == mask(x.A[0].W) {
				return x
			}
			if x.Op == OpIte && x.A[1].IsConst() && x.A[2].IsConst() {
				return b.Ite(x.A[0], b.Bin(op, x.A[1], y), b.Bin(op, x.A[2], y))
			}
		}
	case OpOr:
		if x == y {
			return x
		}
		if x.IsConst() {
			x, y = y, x
		}
		if y.IsConst() {
			if y.C == 0 {
				return x
			}
			if y.C == mask(w) {
				return y
			}
		}
		// or of disjoint "byte lanes": zext(a) | shl(zext(b), k) with k >= width(a)  => concat
		if r := b.orLanes(x, y); r != nil {
			return r
		}
	case OpXor:
		if x == y {
			return b.Const(w, 0)
		}
		if x.IsConst() {
			x, y = y, x
		}
		if y.IsConst() && y.C == 0 {
			return x
		}
	case OpShl, OpLShr, OpAShr:
		if y.IsConst() && y.C == 0 {
			return x
		}
		if x.IsConst() && x.C == 0 {
			return x
		}
		if y.IsConst() && op != OpAShr && y.C >= uint64(w) {
			return b.Const(w, 0)
		}
		if y.IsConst() && op == OpShl {
			// shl(x, k) = concat(extract[w-k-1:0] x, 0_k)
			k := int(y.C)
			return b.Concat(b.Extract(x, w-k-1, 0), b.Const(k, 0))
		}
		if y.IsConst() && op == OpLShr {
			k := int(y.C)
			return b.ZExt(b.Extract(x, w-1, k), w)
		}
	case OpUDiv, OpURem:
		if y.IsConst() && y.C != 0 && bits.OnesCount64(y.C) == 1 {
			k := bits.TrailingZeros64(y.C)
			if op == OpUDiv {
				return b.Bin(OpLShr, x, b.Const(w, uint64(k)))
			}
			return b.Bin(OpAnd, x, b.Const(w, y.C-1))
		}
	}
	return b.mk(op, w, []*Term{x, y}, 0, "")
}

// laneInfo describes t as (value << shift) zero-extended into W bits, when t has that shape.
func laneInfo(t *Term) (val *Term, shift int, ok bool) {
	switch t.Op {
	case OpZExt:
		return t.A[0], 0, true
	case OpConcat:
		// concat(hi, 0_k)
		lo := t.A[1]
		if lo.IsConst() && lo.C == 0 {
			hi := t.A[0]
			if hi.Op == OpZExt {
				return hi.A[0], lo.W, true
			}
			if hi.Op == OpExtract && hi.A[0].Op == OpZExt && int(hi.C&0xff) == 0 {
				inner := hi.A[0].A[0]
				if inner.W <= hi.W {
					return inner, lo.W, true
				}
			}
			return hi, lo.W, true
		}
	}
	return nil, 0, false
}

func (b *TB) orLanes(x, y *Term) *Term {
	w := x.W
	xv, xs, ok1 := laneInfo(x)
	yv, ys, ok2 := laneInfo(y)
	if !ok1 || !ok2 {
		return nil
	}
	if xs > ys {
		xv, yv = yv, xv
		xs, ys = ys, xs
	}
	// x occupies [xs, xs+xv.W), y occupies [ys, ys+yv.W)
	if xs+xv.W != ys {
		return nil
	}
	if ys+yv.W > w {
		return nil
	}
	r := b.Concat(yv, xv)
	if xs > 0 {
		r = b.Concat(r, b.Const(xs, 0))
	}
	return b.ZExt(r, w)
}

func (b *TB) Not(x *Term) *Term {
	if x.IsConst() {
		return b.Const(x.W, ^x.C)
	}
	if x.Op == OpNot {
		return x.A[0]
	}
	return b.mk(OpNot, x.W, []*Term{x}, 0, "")
}

func (b *TB) Concat(hi, lo *Term) *Term {
	if hi.W == 0 || lo.W == 0 {
		panic("concat of bool")
	}
	w := hi.W + lo.W
	if w > 64 {
		panic("concat wider than 64 bits")
	}
	if hi.IsConst() && lo.IsConst() {
		return b.Const(w, hi.C<<uint(lo.W)|lo.C)
	}
	// adjacent extracts of the same term
	if hi.Op == OpExtract && lo.Op == OpExtract && hi.A[0] == lo.A[0] {
		hh, hl := int(hi.C>>8), int(hi.C&0xff)
		lh, ll := int(lo.C>>8), int(lo.C&0xff)
		if hl == lh+1 {
			return b.Extract(hi.A[0], hh, ll)
		}
	}
	// concat(hi, concat(mid, lo')) with hi,mid adjacent extracts
	if lo.Op == OpConcat && hi.Op == OpExtract && lo.A[0].Op == OpExtract && hi.A[0] == lo.A[0].A[0] {
		hl := int(hi.C & 0xff)
		lh := int(lo.A[0].C >> 8)
		if hl == lh+1 {
			return b.Concat(b.Concat(hi, lo.A[0]), lo.A[1])
		}
	}
	// concat(0, x) = zext
	if hi.IsConst() && hi.C == 0 {
		return b.ZExt(lo, w)
	}
	return b.mk(OpConcat, w, []*Term{hi, lo}, 0, "")
}

func (b *TB) Extract(x *Term, hi, lo int) *Term {
	if hi < lo {
		panic("extract hi<lo")
	}
	w := hi - lo + 1
	if lo == 0 && w == x.W {
		return x
	}
	switch x.Op {
	case OpConst:
		return b.Const(w, x.C>>uint(lo))
	case OpExtract:
		l2 := int(x.C & 0xff)
		return b.Extract(x.A[0], hi+l2, lo+l2)
	case OpConcat:
		lw := x.A[1].W
		if hi < lw {
			return b.Extract(x.A[1], hi, lo)
		}
		if lo >= lw {
			return b.Extract(x.A[0], hi-lw, lo-lw)
		}
		return b.Concat(b.Extract(x.A[0], hi-lw, 0), b.Extract(x.A[1], lw-1, lo))
	case OpZExt:
		iw := x.A[0].W
		if hi < iw {
			return b.Extract(x.A[0], hi, lo)
		}
		if lo >= iw {
			return b.Const(w, 0)
		}
		return b.ZExt(b.Extract(x.A[0], iw-1, lo), w)
	case OpSExt:
		iw := x.A[0].W
		if hi < iw {
			return b.Extract(x.A[0], hi, lo)
		}
	case OpIte:
		if x.A[1].IsConst() || x.A[2].IsConst() {
			return b.Ite(x.A[0], b.Extract(x.A[1], hi, lo), b.Extract(x.A[2], hi, lo))
		}
	case OpAnd, OpOr, OpXor:
		if lo == 0 || x.A[1].IsConst() {
			return b.Bin(x.Op, b.Extract(x.A[0], hi, lo), b.Extract(x.A[1], hi, lo))
		}
	case OpAdd, OpSub:
		if lo == 0 {
			return b.Bin(x.Op, b.Extract(x.A[0], hi, 0), b.Extract(x.A[1], hi, 0))
		}
	}
	return b.mk(OpExtract, w, []*Term{x}, uint64(hi)<<8|uint64(lo), "")
}

func (b *TB) ZExt(x *Term, w int) *Term {
	if w == x.W {
		return x
	}
	if w < x.W {
		return b.Extract(x, w-1, 0)
	}
	switch x.Op {
	case OpConst:
		return b.Const(w, x.C)
	case OpZExt:
		return b.ZExt(x.A[0], w)
	case OpIte:
		if x.A[1].IsConst() && x.A[2].IsConst() {
			return b.Ite(x.A[0], b.ZExt(x.A[1], w), b.ZExt(x.A[2], w))
		}
	}
	return b.mk(OpZExt, w, []*Term{x}, 0, "")
}

func (b *TB) SExt(x *Term, w int) *Term {
	if w == x.W {
		return x
	}
	if w < x.W {
		return b.Extract(x, w-1, 0)
	}
	switch x.Op {
	case OpConst:
		return b.Const(w, uint64(sx(x.C, x.W)))
	case OpZExt:
		// sign bit is zero
		return b.ZExt(x.A[0], w)
	case OpIte:
		if x.A[1].IsConst() && x.A[2].IsConst() {
			return b.Ite(x.A[0], b.SExt(x.A[1], w), b.SExt(x.A[2], w))
		}
	}
	return b.mk(OpSExt, w, []*Term{x}, 0, "")
}

// ---- comparisons ----

func (b *TB) Eq(x, y *Term) *Term {
	if x == y {
		return b.T
	}
	if x.W != y.W {
		panic(fmt.Sprintf("eq width mismatch %d %d", x.W, y.W))
	}
	if x.IsConst() && y.IsConst() {
		return b.Bool(x.C == y.C)
	}
	if x.W == 0 {
		if x.IsConst() {
			x, y = y, x
		}
		if y.IsTrue() {
			return x
		}
		if y.IsFalse() {
			return b.BNot(x)
		}
	}
	if x.IsConst() {
		x, y = y, x
	}
	if y.IsConst() {
		switch x.Op {
		case OpAdd:
			if x.A[1].IsConst() {
				return b.Eq(x.A[0], b.Const(x.W, y.C-x.A[1].C))
			}
		case OpZExt:
			iw := x.A[0].W
			if y.C&^mask(iw) != 0 {
				return b.F
			}
			return b.Eq(x.A[0], b.Const(iw, y.C))
		case OpIte:
			if x.A[1].IsConst() && x.A[2].IsConst() {
				return b.Ite(x.A[0], b.Eq(x.A[1], y), b.Eq(x.A[2], y))
			}
			if x.A[1].IsConst() {
				return b.Ite(x.A[0], b.Eq(x.A[1], y), b.Eq(x.A[2], y))
			}
			if x.A[2].IsConst() {
				return b.Ite(x.A[0], b.Eq(x.A[1], y), b.Eq(x.A[2], y))
			}
		case OpConcat:
			lw := x.A[1].W
			return b.And(b.Eq(x.A[0], b.Const(x.A[0].W, y.C>>uint(lw))), b.Eq(x.A[1], b.Const(lw, y.C)))
		}
	}
	if x.Op == OpZExt && y.Op == OpZExt && x.A[0].W == y.A[0].W {
		return b.Eq(x.A[0], y.A[0])
	}
	if x.ID > y.ID {
		x, y = y, x
	}
	return b.mk(OpEq, 0, []*Term{x, y}, 0, "")
}

func (b *TB) Cmp(op Op, x, y *Term) *Term {
	if x.W != y.W {
		panic(fmt.Sprintf("cmp width mismatch %d %d", x.W, y.W))
	}
	w := x.W
	if x.IsConst() && y.IsConst() {
		switch op {
		case OpUlt:
			return b.Bool(x.C < y.C)
		case OpUle:
			return b.Bool(x.C <= y.C)
		case OpSlt:
			return b.Bool(sx(x.C, w) < sx(y.C, w))
		case OpSle:
			return b.Bool(sx(x.C, w) <= sx(y.C, w))
		}
	}
	if x == y {
		return b.Bool(op == OpUle || op == OpSle)
	}
	switch op {
	case OpUlt:
		if y.IsConst() && y.C == 0 {
			return b.F
		}
		if y.IsConst() && y.C == 1 {
			return b.Eq(x, b.Const(w, 0))
		}
		if x.IsConst() && x.C == mask(w) {
			return b.F
		}
	case OpUle:
		if x.IsConst() && x.C == 0 {
			return b.T
		}
		if y.IsConst() && y.C == mask(w) {
			return b.T
		}
		if y.IsConst() && y.C == 0 {
			return b.Eq(x, y)
		}
	}
	// comparisons of zero-extended values against constants / each other
	if x.Op == OpZExt && y.Op == OpZExt && x.A[0].W == y.A[0].W {
		uop := op
		if op == OpSlt {
			uop = OpUlt
		} else if op == OpSle {
			uop = OpUle
		}
		return b.Cmp(uop, x.A[0], y.A[0])
	}
	if x.Op == OpZExt && y.IsConst() {
		iw := x.A[0].W
		sv := sx(y.C, w)
		if op == OpSlt || op == OpSle {
			if sv < 0 {
				return b.F
			}
		}
		if y.C > mask(iw) {
			return b.T
		}
		uop := OpUlt
		if op == OpUle || op == OpSle {
			uop = OpUle
		}
		return b.Cmp(uop, x.A[0], b.Const(iw, y.C))
	}
	if y.Op == OpZExt && x.IsConst() {
		iw := y.A[0].W
		sv := sx(x.C, w)
		if op == OpSlt || op == OpSle {
			if sv < 0 {
				return b.T
			}
		}
		if x.C > mask(iw) {
			return b.F
		}
		uop := OpUlt
		if op == OpUle || op == OpSle {
			uop = OpUle
		}
		return b.Cmp(uop, b.Const(iw, x.C), y.A[0])
	}
	if x.Op == OpIte && x.A[1].IsConst() && x.A[2].IsConst() && y.IsConst() {
		return b.Ite(x.A[0], b.Cmp(op, x.A[1], y), b.Cmp(op, x.A[2], y))
	}
	return b.mk(op, 0, []*Term{x, y}, 0, "")
}

func (b *TB) Ult(x, y *Term) *Term { return b.Cmp(OpUlt, x, y) }
func (b *TB) Ule(x, y *Term) *Term { return b.Cmp(OpUle, x, y) }
func (b *TB) Slt(x, y *Term) *Term { return b.Cmp(OpSlt, x, y) }
func (b *TB) Sle(x, y *Term) *Term { return b.Cmp(OpSle, x, y) }

// ---- booleans ----

func (b *TB) BNot(x *Term) *Term {
	if x.W != 0 {
		panic("bnot of non-bool")
	}
	if x.IsConst() {
		return b.Bool(x.C == 0)
	}
	if x.Op == OpBNot {
		return x.A[0]
	}
	return b.mk(OpBNot, 0, []*Term{x}, 0, "")
}

func (b *TB) And(xs ...*Term) *Term {
	var out []*Term
	seen := map[int]bool{}
	for _, x := range xs {
		if x.W != 0 {
			panic("and of non-bool")
		}
		if x.IsFalse() {
			return b.F
		}
		if x.IsTrue() {
			continue
		}
		if x.Op == OpBAnd {
			for _, y := range x.A {
				if !seen[y.ID] {
					seen[y.ID] = true
					out = append(out, y)
				}
			}
			continue
		}
		if !seen[x.ID] {
			seen[x.ID] = true
			out = append(out, x)
		}
	}
	for _, x := range out {
		if x.Op == OpBNot && seen[x.A[0].ID] {
			return b.F
		}
	}
	if len(out) == 0 {
		return b.T
	}
	if len(out) == 1 {
		return out[0]
	}
	sort.Slice(out, func(i, j int) bool { return out[i].ID < out[j].ID })
	return b.mk(OpBAnd, 0, out, 0, "")
}

func (b *TB) Or(xs ...*Term) *Term {
	var out []*Term
	seen := map[int]bool{}
	for _, x := range xs {
		if x.W != 0 {
			panic("or of non-bool")
		}
		if x.IsTrue() {
			return b.T
		}
		if x.IsFalse() {
			continue
		}
		if x.Op == OpBOr {
			for _, y := range x.A {
				if !seen[y.ID] {
					seen[y.ID] = true
					out = append(out, y)
				}
			}
			continue
		}
		if !seen[x.ID] {
			seen[x.ID] = true
			out = append(out, x)
		}
	}
	for _, x := range out {
		if x.Op == OpBNot && seen[x.A[0].ID] {
			return b.T
		}
	}
	if len(out) == 0 {
		return b.F
	}
	if len(out) == 1 {
		return out[0]
	}
	sort.Slice(out, func(i, j int) bool { return out[i].ID < out[j].ID })
	return b.mk(OpBOr, 0, out, 0, "")
}

func (b *TB) Implies(x, y *Term) *Term { return b.Or(b.BNot(x), y) }

func (b *TB) Ite(c, x, y *Term) *Term {
	if c.IsTrue() {
		return x
	}
	if c.IsFalse() {
		return y
	}
	if x == y {
		return x
	}
	if x.W != y.W {
		panic(fmt.Sprintf("ite width mismatch %d %d", x.W, y.W))
	}
	if x.W == 0 {
		if x.IsTrue() && y.IsFalse() {
			return c
		}
		if x.IsFalse() && y.IsTrue() {
			return b.BNot(c)
		}
		if x.IsTrue() {
			return b.Or(c, y)
		}
		if x.IsFalse() {
			return b.And(b.BNot(c), y)
		}
		if y.IsTrue() {
			return b.Or(b.BNot(c), x)
		}
		if y.IsFalse() {
			return b.And(c, x)
		}
	}
	if c.Op == OpBNot {
		return b.Ite(c.A[0], y, x)
	}
	// ite(c, x, ite(c, _, z)) = ite(c, x, z)
	if y.Op == OpIte && y.A[0] == c {
		return b.Ite(c, x, y.A[2])
	}
	if x.Op == OpIte && x.A[0] == c {
		return b.Ite(c, x.A[1], y)
	}
	return b.mk(OpIte, x.W, []*Term{c, x, y}, 0, "")
}

// Resize converts an integer term between widths following Go conversion rules.
func (b *TB) Resize(x *Term, w int, srcSigned bool) *Term {
	if w == x.W {
		return x
	}
	if w < x.W {
		return b.Extract(x, w-1, 0)
	}
	if srcSigned {
		return b.SExt(x, w)
	}
	return b.ZExt(x, w)
}

// ---- printing ----

func sortStr(w int) string {
	switch {
	case w == 0:
		return "Bool"
	case w == -1:
		return "(Array (_ BitVec 64) (_ BitVec 8))"
	}
	return fmt.Sprintf("(_ BitVec %d)", w)
}

func smtName(s string) string {
	ok := true
	for _, r := range s {
		if !(r >= 'a' && r <= 'z' || r >= 'A' && r <= 'Z' || r >= '0' && r <= '9' || r == '_' || r == '.' || r == '!' || r == '$') {
			ok = false
			break
		}
	}
	if ok && s != "" {
		return s
	}
	return "|" + strings.ReplaceAll(s, "|", "_") + "|"
}

func (t *Term) ref() string {
	switch t.Op {
	case OpConst:
		if t.W == 0 {
			if t.C != 0 {
				return "true"
			}
			return "false"
		}
		return fmt.Sprintf("(_ bv%d %d)", t.C, t.W)
	case OpVar, OpArrVar:
		return smtName(t.Name)
	}
	return "t" + strconv.Itoa(t.ID)
}

// body prints the node with references to its children.
func (t *Term) body() string {
	var sb strings.Builder
	switch t.Op {
	case OpConst, OpVar, OpArrVar:
		return t.ref()
	case OpExtract:
		fmt.Fprintf(&sb, "((_ extract %d %d) %s)", t.C>>8, t.C&0xff, t.A[0].ref())
	case OpZExt:
		fmt.Fprintf(&sb, "((_ zero_extend %d) %s)", t.W-t.A[0].W, t.A[0].ref())
	case OpSExt:
		fmt.Fprintf(&sb, "((_ sign_extend %d) %s)", t.W-t.A[0].W, t.A[0].ref())
	case OpUF:
		if len(t.A) == 0 {
			return smtName(t.Name)
		}
		sb.WriteString("(" + smtName(t.Name))
		for _, a := range t.A {
			sb.WriteString(" " + a.ref())
		}
		sb.WriteString(")")
	default:
		sb.WriteString("(" + opNames[t.Op])
		for _, a := range t.A {
			sb.WriteString(" " + a.ref())
		}
		sb.WriteString(")")
	}
	return sb.String()
}

// String renders a term fully inlined (for diagnostics only; can be large).
func (t *Term) String() string {
	return t.strDepth(6)
}

func (t *Term) strDepth(d int) string {
	switch t.Op {
	case OpConst:
		if t.W == 0 {
			return fmt.Sprint(t.C != 0)
		}
		return fmt.Sprintf("%d:%d", t.C, t.W)
	case OpVar, OpArrVar:
		return t.Name
	}
	if d == 0 {
		return "…"
	}
	var sb strings.Builder
	switch t.Op {
	case OpExtract:
		fmt.Fprintf(&sb, "(extract[%d:%d]", t.C>>8, t.C&0xff)
	case OpZExt:
		fmt.Fprintf(&sb, "(zext%d", t.W)
	case OpSExt:
		fmt.Fprintf(&sb, "(sext%d", t.W)
	case OpUF:
		sb.WriteString("(" + t.Name)
	default:
		sb.WriteString("(" + opNames[t.Op])
	}
	for _, a := range t.A {
		sb.WriteString(" " + a.strDepth(d-1))
	}
	sb.WriteString(")")
	return sb.String()
}

// Eval evaluates a term under an assignment; used to cross-check models.
type Model struct {
	Vars map[string]uint64
	Arrs map[string]map[uint64]uint8
	UFs  map[string]uint64 // key: name(args...) printed
}

func (m *Model) Eval(t *Term, memo map[int]uint64) uint64 {
	if v, ok := memo[t.ID]; ok {
		return v
	}
	var r uint64
	w := t.W
	a := func(i int) uint64 { return m.Eval(t.A[i], memo) }
	switch t.Op {
	case OpConst:
		r = t.C
	case OpVar:
		r = m.Vars[t.Name]
	case OpSelect:
		r = uint64(m.Arrs[t.A[0].Name][a(1)])
	case OpAdd:
		r = a(0) + a(1)
	case OpSub:
		r = a(0) - a(1)
	case OpMul:
		r = a(0) * a(1)
	case OpNeg:
		r = -a(0)
	case OpNot:
		r = ^a(0)
	case OpUDiv, OpURem, OpSDiv, OpSRem, OpAnd, OpOr, OpXor, OpShl, OpLShr, OpAShr:
		r, _ = (&TB{}).binConst(t.Op, w, a(0), a(1))
	case OpConcat:
		r = a(0)<<uint(t.A[1].W) | a(1)
	case OpExtract:
		r = a(0) >> uint(t.C&0xff)
	case OpZExt:
		r = a(0)
	case OpSExt:
		r = uint64(sx(a(0), t.A[0].W))
	case OpEq:
		r = b2u(a(0) == a(1))
	case OpUlt:
		r = b2u(a(0) < a(1))
	case OpUle:
		r = b2u(a(0) <= a(1))
	case OpSlt:
		r = b2u(sx(a(0), t.A[0].W) < sx(a(1), t.A[0].W))
	case OpSle:
		r = b2u(sx(a(0), t.A[0].W) <= sx(a(1), t.A[0].W))
	case OpIte:
		if a(0) != 0 {
			r = a(1)
		} else {
			r = a(2)
		}
	case OpBAnd:
		r = 1
		for i := range t.A {
			if a(i) == 0 {
				r = 0
			}
		}
	case OpBOr:
		r = 0
		for i := range t.A {
			if a(i) != 0 {
				r = 1
			}
		}
	case OpBNot:
		r = b2u(a(0) == 0)
	case OpUF:
		var sb strings.Builder
		sb.WriteString(t.Name)
		for i := range t.A {
			fmt.Fprintf(&sb, ",%d", a(i))
		}
		r = m.UFs[sb.String()]
	}
	if w > 0 {
		r &= mask(w)
	}
	memo[t.ID] = r
	return r
}

func b2u(b bool) uint64 {
	if b {
		return 1
	}
	return 0
}
