package efivarfs

import (
	"bytes"

	"github.com/foxboron/go-uefi/internal/vsym"
)

var vsymC14Max = 16

func VC14_BootOrder() {
	in := vsym.Bytes("in", vsymC14Max)
	in = in[:vsym.Concrete(len(in), 1<<12)] // case-split the length: positions are concrete on each path
	vsym.AllocBound(8*len(in) + 4096)
	vsym.MustTerminate()
	var bo bootorder
	bo.Unmarshal(bytes.NewBuffer(in))
	vsym.Reach("end")
}

func VC14_Efibool() {
	in := vsym.Bytes("in", vsymC14Max)
	in = in[:vsym.Concrete(len(in), 1<<12)] // case-split the length: positions are concrete on each path
	vsym.MustTerminate()
	var b efibool
	b.Unmarshal(bytes.NewBuffer(in))
	vsym.Reach("end")
}
