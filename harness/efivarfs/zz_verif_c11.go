package efivarfs

import (
	"bytes"
	"os"

	"github.com/foxboron/go-uefi/efi/attributes"
	"github.com/foxboron/go-uefi/efi/util"
	"github.com/foxboron/go-uefi/efivar"
	"github.com/foxboron/go-uefi/efivarfs/fswrapper"
	"github.com/foxboron/go-uefi/internal/vsym"
)

var vsymC11Name = 4   // symbolic letters in the variable name
var vsymC11Value = 64 // value length bound

type vValue []byte

func (v vValue) Marshal(b *bytes.Buffer) { b.Write(v) }
func (v vValue) Bytes() []byte           { return v }

type vSink struct {
	called bool
	got    []byte
	fail   bool
}

func (s *vSink) Unmarshal(b *bytes.Buffer) error {
	s.called = true
	s.got = append([]byte{}, b.Bytes()...)
	return nil
}

func vLower(n byte) byte { return vsym.IteU8(n < 10, '0'+n, 'a'+n-10) }

// vGUIDLower is the canonical lower-case GUID text (C17 shows Format() yields it).
func vGUIDLower(g util.EFIGUID) []byte {
	be := []byte{byte(g.Data1 >> 24), byte(g.Data1 >> 16), byte(g.Data1 >> 8), byte(g.Data1),
		byte(g.Data2 >> 8), byte(g.Data2), byte(g.Data3 >> 8), byte(g.Data3)}
	be = append(be, g.Data4[:]...)
	var out []byte
	for i, b := range be {
		if i == 4 || i == 6 || i == 8 || i == 10 {
			out = append(out, '-')
		}
		out = append(out, vLower(b>>4), vLower(b&15))
	}
	return out
}

func vSymVar() (efivar.Efivar, []byte) {
	g := util.EFIGUID{Data1: vsym.U32("g.d1"), Data2: vsym.U16("g.d2"), Data3: vsym.U16("g.d3")}
	copy(g.Data4[:], vsym.BytesN("g.d4", 8))
	name := vsym.BytesN("name", vsymC11Name)
	for _, c := range name { // ASCII letters and digits
		vsym.Assume(vsym.Or(vsym.And(c >= 'a', c <= 'z'), vsym.And(c >= 'A', c <= 'Z'), vsym.And(c >= '0', c <= '9')))
	}
	v := efivar.Efivar{Name: string(name), GUID: &g, Attributes: attributes.Attributes(vsym.U32("attrs"))}
	want := append([]byte(attributes.Efivars+"/"), name...)
	want = append(want, '-')
	want = append(want, vGUIDLower(g)...)
	return v, want
}

func vNewFS() (*EFIFS, *vFS) {
	rec := &vFS{}
	w := fswrapper.NewMemoryWrapper()
	w.SetFS(rec)
	return &EFIFS{w}, rec
}

// VC11_WriteTrace: writing a variable is exactly OpenFile(<dir>/<Name>-<guid>, O_WRONLY|O_CREATE
// [|O_APPEND iff APPEND_WRITE]), one Write(attrs LE32 || value), and nothing else on any path.
func VC11_WriteTrace() {
	efs, rec := vNewFS()
	v, wantPath := vSymVar()
	val := vsym.Bytes("value", vsymC11Value)
	err := efs.WriteVar(v, vValue(val))
	vsym.Assert(err == nil, "write succeeds on a working file system")
	// the trace, ignoring Close (the statement does not constrain it)
	var ops []vOp
	for _, o := range rec.trace {
		if o.op != "Close" {
			ops = append(ops, o)
		}
	}
	vsym.Assert(len(ops) == 2, "exactly one open and one write, nothing else")
	vsym.Assert(ops[0].op == "OpenFile", "the file is opened with OpenFile")
	vsym.AssertBytesEq([]byte(ops[0].path), wantPath, "path is <efivars>/<Name>-<lower-case GUID>")
	wantFlags := os.O_WRONLY | os.O_CREATE
	wantFlags = vsym.IteInt(v.Attributes&attributes.EFI_VARIABLE_APPEND_WRITE != 0, wantFlags|os.O_APPEND, wantFlags)
	vsym.Assert(ops[0].flag == wantFlags, "write-only, create, append iff APPEND_WRITE")
	vsym.Assert(ops[1].op == "Write", "one write operation")
	a := uint32(v.Attributes)
	buf := append([]byte{byte(a), byte(a >> 8), byte(a >> 16), byte(a >> 24)}, val...)
	vsym.AssertBytesEq(ops[1].buf, buf, "buffer is the 4-byte little-endian attributes followed by the value")
	vsym.Reach("end")
}

// VC11_WriteSequence: two writes through one EFIFS: the second write's open mode and buffer depend
// on its own variable and value only (no state carried over from the first write).
func VC11_WriteSequence() {
	efs, rec := vNewFS()
	v1, _ := vSymVar()
	v2, wantPath2 := vSymVar()
	val1, val2 := vsym.Bytes("value1", vsymC11Value), vsym.Bytes("value2", vsymC11Value)
	vsym.Assert(efs.WriteVar(v1, vValue(val1)) == nil, "first write succeeds")
	vsym.Assert(efs.WriteVar(v2, vValue(val2)) == nil, "second write succeeds")
	var ops []vOp
	for _, o := range rec.trace {
		if o.op != "Close" {
			ops = append(ops, o)
		}
	}
	vsym.Assert(len(ops) == 4, "one open and one write per variable write")
	vsym.Assert(ops[2].op == "OpenFile", "the file is opened with OpenFile")
	vsym.AssertBytesEq([]byte(ops[2].path), wantPath2, "second path is that of the second variable")
	wantFlags := os.O_WRONLY | os.O_CREATE
	wantFlags = vsym.IteInt(v2.Attributes&attributes.EFI_VARIABLE_APPEND_WRITE != 0, wantFlags|os.O_APPEND, wantFlags)
	vsym.Assert(ops[2].flag == wantFlags, "write-only, create, append iff the second variable's APPEND_WRITE")
	a := uint32(v2.Attributes)
	vsym.AssertBytesEq(ops[3].buf, append([]byte{byte(a), byte(a >> 8), byte(a >> 16), byte(a >> 24)}, val2...), "second buffer is its attributes followed by its value")
	vsym.Reach("end")
}

// VC11_Read: stored file = symbolic bytes; required attributes symbolic.
func VC11_Read() {
	efs, rec := vNewFS()
	v, wantPath := vSymVar()
	rec.exists = vsym.Bool("exists")
	rec.content = vsym.Bytes("file", vsymC11Value)
	sink := &vSink{}
	attrs, err := efs.GetVarWithAttributes(v, sink)
	vsym.AssertBytesEq([]byte(rec.trace[0].path), wantPath, "the file opened is <efivars>/<Name>-<lower-case GUID>")
	if !rec.exists {
		vsym.Assert(err != nil, "absent file yields an error")
		vsym.Assert(!sink.called, "nothing is decoded for an absent file")
		vsym.Reach("absent")
		return
	}
	if len(rec.content) < 4 {
		vsym.Assert(err != nil, "a file shorter than four bytes yields an error")
		vsym.Assert(!sink.called, "nothing is decoded for a short file")
		vsym.Reach("short")
		return
	}
	stored := attributes.Attributes(uint32(rec.content[0]) | uint32(rec.content[1])<<8 | uint32(rec.content[2])<<16 | uint32(rec.content[3])<<24)
	if v.Attributes&stored != v.Attributes {
		vsym.Assert(err == ErrIncorrectAttributes, "missing required attribute yields the wrong-attributes error")
		vsym.Assert(!sink.called, "the value is not decoded when attributes are wrong")
		vsym.Reach("wrongattrs")
		return
	}
	vsym.Assert(err == nil, "read succeeds")
	vsym.Assert(attrs == stored, "the stored attributes are returned")
	vsym.Assert(sink.called, "the value is decoded")
	vsym.AssertBytesEq(sink.got, rec.content[4:], "the decoder receives exactly the bytes after the first four")
	vsym.Reach("end")
}

// VC11_Predefined: every predefined variable definition goes to its firmware file name.
func VC11_Predefined() {
	type pv struct {
		v    efivar.Efivar
		file string
	}
	const global = "8be4df61-93ca-11d2-aa0d-00e098032b8c"
	const secdb = "d719b2cb-3d3a-4596-a3bc-dad00e67656f"
	const loader = "4a67b082-0a4c-41cf-b6c7-440b29bb8c4f"
	vars := []pv{
		{efivar.SecureBoot, "SecureBoot-" + global}, {efivar.SetupMode, "SetupMode-" + global}, {efivar.PK, "PK-" + global},
		{efivar.PKDefault, "PKDefault-" + global}, {efivar.KEK, "KEK-" + global}, {efivar.KEKDefault, "KEKDefault-" + global},
		{efivar.Db, "db-" + secdb}, {efivar.Dbx, "dbx-" + secdb}, {efivar.DbDefault, "dbDefault-" + global}, {efivar.DbxDefault, "dbxDefault-" + global},
		{efivar.BootCurrent, "BootCurrent-" + global}, {efivar.BootNext, "BootNext-" + global}, {efivar.BootOrder, "BootOrder-" + global},
		{efivar.LoaderEntrySelected, "LoaderEntrySelected-" + loader}, {efivar.LoaderEntries, "LoaderEntries-" + loader},
		{efivar.LoaderFeatures, "LoaderFeatures-" + loader}, {efivar.LoaderSystemToken, "LoaderSystemToken-" + loader},
	}
	val := vsym.Bytes("value", 16)
	{
		x := vars[vsym.Pick("var", len(vars))]
		efs, rec := vNewFS()
		err := efs.WriteVar(x.v, vValue(val))
		vsym.Assert(err == nil, "write succeeds")
		vsym.Assert(vsym.And(rec.trace[0].op == "OpenFile", rec.trace[0].path == attributes.Efivars+"/"+x.file), "predefined variable is written to its firmware file name")
		vsym.Assert(rec.trace[0].flag == os.O_WRONLY|os.O_CREATE, "predefined variables are not opened in append mode")
		// read: the required attributes are the definition's
		rec2 := &vFS{exists: true}
		stored := vsym.U32("stored")
		rec2.content = append([]byte{byte(stored), byte(stored >> 8), byte(stored >> 16), byte(stored >> 24)}, val...)
		efs.SetFS(rec2)
		sink := &vSink{}
		_, rerr := efs.GetVarWithAttributes(x.v, sink)
		ok := uint32(x.v.Attributes)&stored == uint32(x.v.Attributes)
		vsym.Assert((rerr == nil) == ok, "read succeeds iff the stored mask has every required attribute")
		vsym.Assert(sink.called == ok, "the value is decoded iff the attributes are right")
		vsym.Assert(rec2.trace[0].path == attributes.Efivars+"/"+x.file, "predefined variable is read from its firmware file name")
	}
	vsym.Reach("end")
}
