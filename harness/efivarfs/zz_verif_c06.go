package efivarfs

import (
	"crypto/sha256"

	"github.com/foxboron/go-uefi/internal/vsym"
	"github.com/foxboron/go-uefi/pkcs7"
)

var vsymC06Payload = 8

// VC06_WrittenUpdateBinding: a signed update written through WriteSignedUpdate: the file receives
// one buffer, attributes || descriptor || payload, and the signature inside the descriptor commits
// to name || GUID || *the attributes written* || the descriptor's timestamp || payload.
func VC06_WrittenUpdateBinding() {
	efs, rec := vNewFS()
	fs := &Efivarfs{efs}
	v, _ := vSymVar()
	payload := vsym.Bytes("payload", vsymC06Payload)
	payload = payload[:vsym.Concrete(len(payload), 1<<12)]
	signer := vsym.Signer("k1")
	serial := vsym.BytesN("serial", 2)
	vsym.Assume(serial[0] != 0)
	cert := vsym.Cert(signer, serial)
	err := fs.WriteSignedUpdate(v, vValue(payload), signer, cert)
	vsym.Assert(err == nil, "signed update succeeds on a working file system")
	var buf []byte
	writes := 0
	for _, o := range rec.trace {
		if o.op == "Write" {
			writes++
			buf = o.buf
		}
	}
	vsym.Assert(writes == 1, "exactly one write operation")
	vsym.Assert(len(buf) >= 4+40+len(payload), "the buffer holds attributes, descriptor and payload")
	a := uint32(v.Attributes)
	vsym.AssertBytesEq(buf[:4], []byte{byte(a), byte(a >> 8), byte(a >> 16), byte(a >> 24)}, "the attributes written are the variable's")
	ts := buf[4:20]
	dw := int(uint32(buf[20]) | uint32(buf[21])<<8 | uint32(buf[22])<<16 | uint32(buf[23])<<24)
	vsym.Assert(4+16+dw+len(payload) == len(buf), "descriptor length and payload account for the whole buffer")
	vsym.AssertBytesEq(buf[4+16+dw:], payload, "the payload follows the descriptor")
	sd := buf[4+40 : 4+16+dw]
	p, perr := pkcs7.ParsePKCS7(sd)
	vsym.Assert(perr == nil, "the descriptor carries a SignedData")
	ok, verr := p.Verify(cert)
	vsym.Assert(ok && verr == nil, "the SignedData verifies against the signer's certificate")
	// what firmware hashes: name (UTF-16, no terminator) || GUID (wire order) || attributes || timestamp || payload
	var signedBuf []byte
	for _, c := range []byte(v.Name) {
		signedBuf = append(signedBuf, c, 0)
	}
	g := v.GUID
	signedBuf = append(signedBuf, byte(g.Data1), byte(g.Data1>>8), byte(g.Data1>>16), byte(g.Data1>>24), byte(g.Data2), byte(g.Data2>>8), byte(g.Data3), byte(g.Data3>>8))
	signedBuf = append(signedBuf, g.Data4[:]...)
	signedBuf = append(signedBuf, buf[:4]...)
	signedBuf = append(signedBuf, ts...)
	signedBuf = append(signedBuf, payload...)
	want := sha256.Sum256(signedBuf)
	vsym.AssertBytesEq(p.SignerInfo[0].AuthenticatedAttributes.MessageDigest, want[:], "the signature commits to name || GUID || attributes as written || timestamp || payload")
	vsym.Reach("end")
}
