package efivarfs

import (
	"errors"
	"io"
	"io/fs"
	"os"
	"time"

	"github.com/spf13/afero"

	"github.com/foxboron/go-uefi/internal/vsym"
)

// vFS is a recording file system: it appends every operation to a trace and answers from a
// one-file store whose content is set by the harness.  With faults enabled every operation may
// fail, and writes may be short (fault positions and short counts are symbolic: vsym.Bool/Int).
type vOp struct {
	op   string
	path string
	flag int
	perm os.FileMode
	buf  []byte
}

type vFS struct {
	trace      []vOp
	exists     bool   // the single file exists
	path       string // its path ("" = any path)
	content    []byte
	faults     bool
	nfault     int  // faults injected so far
	nclose     int  // of which in Close
	shortReads bool // Read may deliver a short count without an error (at most twice)
	nshort     int
}

var errInjected = errors.New("injected fault")

func (f *vFS) fault(site string) bool {
	if !f.faults {
		return false
	}
	if vsym.Bool("fault." + site) {
		f.nfault++
		return true
	}
	return false
}

type vFile struct {
	fs   *vFS
	name string
	pos  int
}

type vInfo struct {
	name string
	size int64
}

func (i vInfo) Name() string       { return i.name }
func (i vInfo) Size() int64        { return i.size }
func (i vInfo) Mode() fs.FileMode  { return 0644 }
func (i vInfo) ModTime() time.Time { return time.Time{} }
func (i vInfo) IsDir() bool        { return false }
func (i vInfo) Sys() interface{}   { return nil }

func (f *vFS) rec(op, path string, flag int, perm os.FileMode, buf []byte) {
	f.trace = append(f.trace, vOp{op, path, flag, perm, buf})
}

func (f *vFS) Name() string { return "vFS" }
func (f *vFS) Create(name string) (afero.File, error) {
	f.rec("Create", name, 0, 0, nil)
	return &vFile{fs: f, name: name}, nil
}
func (f *vFS) Mkdir(name string, perm os.FileMode) error {
	f.rec("Mkdir", name, 0, perm, nil)
	return nil
}
func (f *vFS) MkdirAll(path string, perm os.FileMode) error {
	f.rec("MkdirAll", path, 0, perm, nil)
	return nil
}
func (f *vFS) Open(name string) (afero.File, error) {
	f.rec("Open", name, 0, 0, nil)
	if f.fault("open") {
		return nil, errInjected
	}
	if !f.exists {
		return nil, os.ErrNotExist
	}
	return &vFile{fs: f, name: name}, nil
}
func (f *vFS) OpenFile(name string, flag int, perm os.FileMode) (afero.File, error) {
	f.rec("OpenFile", name, flag, perm, nil)
	if f.fault("openfile") {
		return nil, errInjected
	}
	return &vFile{fs: f, name: name}, nil
}
func (f *vFS) Remove(name string) error    { f.rec("Remove", name, 0, 0, nil); return nil }
func (f *vFS) RemoveAll(path string) error { f.rec("RemoveAll", path, 0, 0, nil); return nil }
func (f *vFS) Rename(o, n string) error    { f.rec("Rename", o, 0, 0, nil); return nil }
func (f *vFS) Stat(name string) (os.FileInfo, error) {
	f.rec("Stat", name, 0, 0, nil)
	return vInfo{name, int64(len(f.content))}, nil
}
func (f *vFS) Chmod(name string, mode os.FileMode) error {
	f.rec("Chmod", name, 0, mode, nil)
	return nil
}
func (f *vFS) Chown(name string, uid, gid int) error { f.rec("Chown", name, 0, 0, nil); return nil }
func (f *vFS) Chtimes(name string, a, m time.Time) error {
	f.rec("Chtimes", name, 0, 0, nil)
	return nil
}

func (v *vFile) Close() error {
	v.fs.rec("Close", v.name, 0, 0, nil)
	if v.fs.fault("close") {
		v.fs.nclose++
		return errInjected
	}
	return nil
}
func (v *vFile) Read(p []byte) (int, error) {
	v.fs.rec("Read", v.name, 0, 0, nil)
	if v.fs.fault("read") {
		return 0, errInjected
	}
	if v.pos >= len(v.fs.content) {
		return 0, io.EOF
	}
	// a reader may deliver fewer bytes than asked for without an error (io.Reader contract)
	if rem := len(v.fs.content) - v.pos; v.fs.shortReads && v.fs.nshort < 2 && len(p) > 1 && rem > 1 && vsym.Bool("short.read") {
		k := vsym.Int("short.read.n")
		vsym.Assume(vsym.And(k >= 1, k < len(p), k < rem))
		v.fs.nshort++
		copy(p[:k], v.fs.content[v.pos:])
		v.pos += k
		return k, nil
	}
	n := copy(p, v.fs.content[v.pos:])
	v.pos += n
	return n, nil
}
func (v *vFile) ReadAt(p []byte, off int64) (int, error) {
	v.fs.rec("ReadAt", v.name, 0, 0, nil)
	return 0, io.EOF
}
func (v *vFile) Seek(offset int64, whence int) (int64, error) {
	v.fs.rec("Seek", v.name, 0, 0, nil)
	return 0, nil
}
func (v *vFile) Write(p []byte) (int, error) {
	v.fs.rec("Write", v.name, 0, 0, append([]byte{}, p...))
	if v.fs.fault("write") {
		return 0, errInjected
	}
	if v.fs.faults && vsym.Bool("short.write") {
		n := vsym.Int("short.n")
		vsym.Assume(vsym.And(n >= 0, n < len(p)))
		v.fs.nfault++
		return n, nil
	}
	return len(p), nil
}
func (v *vFile) WriteAt(p []byte, off int64) (int, error) {
	v.fs.rec("WriteAt", v.name, 0, 0, append([]byte{}, p...))
	return len(p), nil
}
func (v *vFile) Name() string { return v.name }
func (v *vFile) Readdir(count int) ([]os.FileInfo, error) {
	v.fs.rec("Readdir", v.name, 0, 0, nil)
	return nil, nil
}
func (v *vFile) Readdirnames(n int) ([]string, error) {
	v.fs.rec("Readdirnames", v.name, 0, 0, nil)
	return nil, nil
}
func (v *vFile) Stat() (os.FileInfo, error) {
	v.fs.rec("FileStat", v.name, 0, 0, nil)
	if v.fs.fault("stat") {
		return nil, errInjected
	}
	return vInfo{v.name, int64(len(v.fs.content))}, nil
}
func (v *vFile) Sync() error { v.fs.rec("Sync", v.name, 0, 0, nil); return nil }
func (v *vFile) Truncate(size int64) error {
	v.fs.rec("Truncate", v.name, 0, 0, nil)
	return nil
}
func (v *vFile) WriteString(s string) (int, error) {
	v.fs.rec("WriteString", v.name, 0, 0, []byte(s))
	return len(s), nil
}

// closeFaultOnly: every injected fault was a failing Close.
func (f *vFS) closeFaultOnly() bool { return f.nfault == f.nclose }
