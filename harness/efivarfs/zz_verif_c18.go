package efivarfs

import (
	"bytes"

	"github.com/foxboron/go-uefi/internal/vsym"
)

var vsymC18Entries = 3

func vHexU(n byte) byte { return vsym.IteU8(n < 10, '0'+n, 'A'+n-10) }

// VC18_BootOrderNames: all 65 536 values of every entry are decided symbolically.
func VC18_BootOrderNames() {
	n := vsym.Pick("n", vsymC18Entries+1)
	raw := vsym.BytesN("order", 2*n)
	var bo bootorder
	err := bo.Unmarshal(bytes.NewBuffer(append([]byte{}, raw...)))
	vsym.Assert(err == nil, "boot order decodes")
	vsym.Assert(len(bo) == n, "one name per 16-bit entry")
	for i := 0; i < n; i++ {
		lo, hi := raw[2*i], raw[2*i+1]
		want := []byte{'B', 'o', 'o', 't', vHexU(hi >> 4), vHexU(hi & 15), vHexU(lo >> 4), vHexU(lo & 15)}
		vsym.AssertBytesEq([]byte(bo[i]), want, "name is Boot followed by four upper-case hex digits")
	}
	vsym.Reach("end")
}
