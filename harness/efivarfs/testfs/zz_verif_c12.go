package testfs

import (
	"bytes"
	"testing/fstest"

	"github.com/foxboron/go-uefi/efivarfs"

	"github.com/foxboron/go-uefi/efi/signature"
	"github.com/foxboron/go-uefi/efi/util"
	"github.com/foxboron/go-uefi/efivar"
	"github.com/foxboron/go-uefi/internal/vsym"
)

var vsymC12Max = 24

type vValue []byte

func (v vValue) Marshal(b *bytes.Buffer) { b.Write(v) }
func (v vValue) Bytes() []byte           { return v }

type vSink struct{ got []byte }

func (s *vSink) Unmarshal(b *bytes.Buffer) error {
	s.got = append([]byte{}, b.Bytes()...)
	return nil
}

func vSplit(name string, max int) []byte {
	b := vsym.Bytes(name, max)
	return b[:vsym.Concrete(len(b), 1<<12)]
}

var vGUID = util.EFIGUID{Data1: 0x11223344, Data2: 0x5566, Data3: 0x7788, Data4: [8]uint8{1, 2, 3, 4, 5, 6, 7, 8}}

// VC12_PlainRegister (inductive step): a variable holding an arbitrary previous value, another
// variable holding an arbitrary value; one plain write of a value of any size; the read returns
// exactly the value written and the other variable is unchanged.
func VC12_PlainRegister() {
	a := efivar.Efivar{Name: "VarA", GUID: &vGUID, Attributes: 7}
	b := efivar.Efivar{Name: "VarB", GUID: &vGUID, Attributes: 7}
	prev, other, next := vSplit("prev", vsymC12Max), vSplit("other", 8), vSplit("next", vsymC12Max)
	var fs *efivarfs.Efivarfs
	if vsym.Pick("prepopulated", 2) == 1 {
		// the store starts from files handed to With (how the integration tests pre-populate it)
		path := "/sys/firmware/efi/efivars/VarA-" + vGUID.Format()
		fs = NewTestFS().With(fstest.MapFS{path: {Data: append([]byte{7, 0, 0, 0}, prev...)}}).Open()
	} else {
		fs = NewTestFS().Open()
		vsym.Assert(fs.WriteVar(a, vValue(prev)) == nil, "setup write")
	}
	vsym.Assert(fs.WriteVar(b, vValue(other)) == nil, "setup write")
	vsym.Tag("shorter-than-previous", len(next) < len(prev))
	vsym.Assert(fs.WriteVar(a, vValue(next)) == nil, "write succeeds")
	var sa, sb vSink
	vsym.Assert(fs.GetVar(a, &sa) == nil, "read succeeds")
	vsym.AssertBytesEq(sa.got, next, "reading returns the value of the most recent write")
	vsym.Assert(fs.GetVar(b, &sb) == nil, "read of the other variable succeeds")
	vsym.AssertBytesEq(sb.got, other, "a write to one variable does not change another")
	vsym.Reach("end")
}

// VC12_SignedRegister: a secure-boot variable holding an arbitrary previous value; one signed
// update whose payload is a database of 0..1 SHA-256 lists; the read returns the payload with the
// authentication descriptor removed.
func VC12_SignedRegister() {
	fs := NewTestFS().Open()
	vars := []efivar.Efivar{efivar.PK, efivar.KEK, efivar.Db, efivar.Dbx}
	v := vars[vsym.Pick("var", len(vars))]
	prev := vSplit("prev", vsymC12Max)
	vsym.Assert(fs.WriteVar(v, vValue(prev)) == nil, "setup write")
	db := signature.NewSignatureDatabase()
	n := vsym.Pick("entries", 3)
	for i := 0; i < n; i++ {
		names := []string{"h0", "h1"}
		owner := util.EFIGUID{Data1: vsym.U32(names[i] + ".owner")}
		vsym.Assert(db.Append(signature.CERT_SHA256_GUID, owner, vsym.BytesN(names[i], 32)) == nil || i > 0, "append")
	}
	signer := vsym.Signer("k1")
	serial := vsym.BytesN("serial", 2)
	vsym.Assume(serial[0] != 0)
	cert := vsym.Cert(signer, serial)
	if vsym.Bool("earlier.signed.update") {
		// a history: another signed update (to dbx or db) happened earlier in the process
		other := efivar.Dbx
		if v.Name == "dbx" {
			other = efivar.Db
		}
		odb := signature.NewSignatureDatabase()
		vsym.Assert(odb.Append(signature.CERT_SHA256_GUID, util.EFIGUID{Data1: 7}, vsym.BytesN("earlier.hash", 32)) == nil, "append")
		vsym.Assert(fs.WriteSignedUpdate(other, odb, signer, cert) == nil, "earlier signed update succeeds")
	}
	vsym.Assert(fs.WriteSignedUpdate(v, db, signer, cert) == nil, "signed update succeeds")
	var got signature.SignatureDatabase
	vsym.Assert(fs.GetVar(v, &got) == nil, "reading the variable after a signed update succeeds")
	vsym.AssertBytesEq(got.Bytes(), db.Bytes(), "the read returns the payload of the signed update, descriptor removed")
	vsym.Reach("end")
}
