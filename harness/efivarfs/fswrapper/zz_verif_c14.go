package fswrapper

import (
	"bytes"

	"github.com/foxboron/go-uefi/internal/vsym"
)

var vsymC14Max = 32

// The file size reported by Stat is an independent symbolic value (a file can shrink or
// grow between Stat and Read, and efivarfs reports sizes the read need not honour).
func VC14_ParseEfivars() {
	in := vsym.Bytes("in", vsymC14Max)
	in = in[:vsym.Concrete(len(in), 1<<12)] // case-split the length: positions are concrete on each path
	size := vsym.Int("size")
	vsym.Assume(vsym.And(size >= 0, size <= 1<<20))
	vsym.AllocBound(8*len(in) + size + 4096)
	vsym.MustTerminate()
	w := NewMemoryWrapper()
	w.ParseEfivars(bytes.NewReader(in), size)
	vsym.Reach("end")
}
