package efivarfs

import (
	"crypto"
	"io"

	"github.com/foxboron/go-uefi/internal/vsym"
)

// vRecSigner records whether the wrapped signer failed.
type vRecSigner struct {
	crypto.Signer
	failed bool
}

func (s *vRecSigner) Sign(r io.Reader, digest []byte, opts crypto.SignerOpts) ([]byte, error) {
	sig, err := s.Signer.Sign(r, digest, opts)
	if err != nil {
		s.failed = true
	}
	return sig, err
}

// Fault positions and short counts are symbolic (vsym.Bool / vsym.Int inside the recording file
// system), so every position of the dependency-call sequence is explored by forking.

// VC15_WriteFaults: any failure or short write of the file system makes WriteVar return an error.
func VC15_WriteFaults() {
	efs, rec := vNewFS()
	rec.faults = true
	v, _ := vSymVar()
	val := vsym.Bytes("value", vsymC11Value)
	err := efs.WriteVar(v, vValue(val))
	if rec.nfault > 0 {
		vsym.Assert(err != nil, "a failed open, write or close (or a short write) is reported as an error")
		vsym.Reach("faulted")
	} else {
		vsym.Assert(err == nil, "no fault, no error")
		vsym.Reach("clean")
	}
	vsym.Reach("end")
}

// VC15_ReadFaults: any failure while opening, stat-ing or reading makes the read return an error and
// nothing is decoded.  (A failing Close after the data was read completely does not invalidate the
// data and is not asserted.)
func VC15_ReadFaults() {
	efs, rec := vNewFS()
	rec.faults = true
	rec.exists = true
	v, _ := vSymVar()
	rec.content = vsym.Bytes("file", vsymC11Value)
	sink := &vSink{}
	_, err := efs.GetVarWithAttributes(v, sink)
	if rec.nfault > 0 && !rec.closeFaultOnly() {
		vsym.Assert(err != nil, "a failed open, stat or read is reported as an error")
		vsym.Assert(!sink.called, "no value is decoded after a failed read")
		vsym.Reach("faulted")
	}
	vsym.Reach("end")
}

// VC15_SignedUpdateFaults: signer and file-system faults during a signed update.  A failed signing
// writes nothing; any fault yields an error.
func VC15_SignedUpdateFaults() {
	vsym.EnableFaults()
	efs, rec := vNewFS()
	rec.faults = true
	fs := &Efivarfs{efs}
	v, _ := vSymVar()
	val := vsym.Bytes("value", 8)
	val = val[:vsym.Concrete(len(val), 64)]
	signer := vsym.Signer("k1")
	serial := vsym.BytesN("serial", 2)
	vsym.Assume(serial[0] != 0)
	cert := vsym.Cert(signer, serial)
	rs := &vRecSigner{Signer: signer}
	err := fs.WriteSignedUpdate(v, vValue(val), rs, cert)
	if rs.failed {
		vsym.Assert(err != nil, "a failed signer is reported as an error")
		vsym.Assert(len(rec.trace) == 0, "a failed signing writes nothing")
		vsym.Reach("signer-failed")
	}
	if err == nil {
		vsym.Assert(rec.nfault == 0, "success is reported only when no file-system step failed")
		vsym.Assert(len(rec.trace) >= 2, "a successful update opened and wrote the variable")
		vsym.Reach("ok")
	} else if len(rec.trace) == 0 {
		vsym.Reach("nothing-written")
	}
	vsym.Reach("end")
}

// VC15_ShortReads: the file delivers its bytes in short reads (no error, as io.Reader allows): the
// read either fails or returns exactly the stored attributes and value, never a wrong value.
func VC15_ShortReads() {
	efs, rec := vNewFS()
	rec.exists = true
	rec.shortReads = true
	v, _ := vSymVar()
	v.Attributes = 0 // no required attribute: the stored mask always suffices
	rec.content = vsym.Bytes("file", 12)
	rec.content = rec.content[:vsym.Concrete(len(rec.content), 64)]
	vsym.Assume(len(rec.content) >= 4)
	sink := &vSink{}
	attrs, err := efs.GetVarWithAttributes(v, sink)
	if err == nil {
		c := rec.content
		vsym.Assert(uint32(attrs) == uint32(c[0])|uint32(c[1])<<8|uint32(c[2])<<16|uint32(c[3])<<24, "the stored attributes are returned")
		vsym.Assert(sink.called, "the value is decoded")
		vsym.AssertBytesEq(sink.got, c[4:], "the value returned is the stored value, however the reads were split")
		vsym.Reach("ok")
	}
	if rec.nshort > 0 {
		vsym.Reach("short")
	}
	vsym.Reach("end")
}
