package efivarfs

import (
	"github.com/foxboron/go-uefi/internal/vsym"
)

// Fault positions and short counts are symbolic (vsym.Bool / vsym.Int inside the recording file
// system), so every position of the dependency-call sequence is explored by forking.

// VC15_WriteFaults: any failure or short write of the file system makes WriteVar return an error.
func VC15_WriteFaults() {
	efs, rec := vNewFS()
	rec.faults = true
	v, _ := vSymVar()
	val := vsym.Bytes("value", vsymC11Value)
	err := efs.WriteVar(v, vValue(val))
	if rec.nfault > 0 {
		vsym.Assert(err != nil, "a failed open, write or close (or a short write) is reported as an error")
		vsym.Reach("faulted")
	} else {
		vsym.Assert(err == nil, "no fault, no error")
		vsym.Reach("clean")
	}
	vsym.Reach("end")
}

// VC15_ReadFaults: any failure while opening, stat-ing or reading makes the read return an error and
// nothing is decoded.  (A failing Close after the data was read completely does not invalidate the
// data and is not asserted.)
func VC15_ReadFaults() {
	efs, rec := vNewFS()
	rec.faults = true
	rec.exists = true
	v, _ := vSymVar()
	rec.content = vsym.Bytes("file", vsymC11Value)
	sink := &vSink{}
	_, err := efs.GetVarWithAttributes(v, sink)
	if rec.nfault > 0 && !rec.closeFaultOnly() {
		vsym.Assert(err != nil, "a failed open, stat or read is reported as an error")
		vsym.Assert(!sink.called, "no value is decoded after a failed read")
		vsym.Reach("faulted")
	}
	vsym.Reach("end")
}
