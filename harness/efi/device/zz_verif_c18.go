package device

import (
	"bytes"

	"github.com/foxboron/go-uefi/efi/attributes"
	"github.com/foxboron/go-uefi/internal/vsym"
)

func vLower(n byte) byte { return vsym.IteU8(n < 10, '0'+n, 'a'+n-10) }

func vLE16(x uint16) []byte { return []byte{byte(x), byte(x >> 8)} }
func vLE32(x uint32) []byte { return []byte{byte(x), byte(x >> 8), byte(x >> 16), byte(x >> 24)} }

func vNode(typ, sub byte, body []byte) []byte {
	n := 4 + len(body)
	return append([]byte{typ, sub, byte(n), byte(n >> 8)}, body...)
}

// vHex: minimal lower-case hex rendering of a value below 2^16 (bounded so that the rendering
// forks stay small).
func vHex16(x uint16) []byte {
	d := []byte{vLower(byte(x >> 12)), vLower(byte(x>>8) & 15), vLower(byte(x>>4) & 15), vLower(byte(x) & 15)}
	switch {
	case x >= 0x1000:
		return d
	case x >= 0x100:
		return d[1:]
	case x >= 0x10:
		return d[2:]
	}
	return d[3:]
}

// vGUIDTextEFI: canonical text of a GUID stored in the EFI in-structure layout
// (Data1, Data2, Data3 little-endian, Data4 verbatim), as the UEFI device-path text form prints it.
func vGUIDTextEFI(b []byte) []byte {
	order := []int{3, 2, 1, 0, 5, 4, 7, 6, 8, 9, 10, 11, 12, 13, 14, 15}
	var out []byte
	for i, k := range order {
		if i == 4 || i == 6 || i == 8 || i == 10 {
			out = append(out, '-')
		}
		out = append(out, vLower(b[k]>>4), vLower(b[k]&15))
	}
	return out
}

// VC18_LoadOption: a load option built by a reference encoder from symbolic fields:
// attributes, description (2 ASCII characters), PCI node, ACPI node, hard-drive node, USB node,
// firmware-file node, file-path node (2 characters), end node.
func VC18_LoadOption() {
	attrs := vsym.U32("attrs")
	d0, d1 := vsym.U8("d0"), vsym.U8("d1")
	f0, f1 := vsym.U8("f0"), vsym.U8("f1")
	for _, c := range []byte{d0, d1, f0, f1} {
		vsym.Assume(vsym.And(c >= 0x20, c < 0x7f))
	}
	pci := vsym.BytesN("pci", 2)
	acpi := vsym.BytesN("acpi", 8)
	usb := vsym.BytesN("usb", 2)
	fw := vsym.BytesN("fw", 16)
	partNum := uint32(vsym.U8("part.num"))
	vsym.Assume(vsym.And(partNum >= 1, partNum <= 99))
	start, size := vsym.U16("part.start"), vsym.U16("part.size")
	sig := vsym.BytesN("part.sig", 16)
	pfmt := 1 + byte(vsym.Pick("part.format", 2))     // 1 = MBR, 2 = GPT
	sigType := 1 + byte(vsym.Pick("part.sigtype", 2)) // 1 = 32-bit MBR signature, 2 = GUID

	hd := vCat(vLE32(partNum), vLE16(start), make([]byte, 6), vLE16(size), make([]byte, 6), sig, []byte{pfmt, sigType})
	nodes := vCat(
		vNode(1, 1, pci),
		vNode(2, 1, acpi),
		vNode(4, 1, hd),
		vNode(3, 5, usb),
		vNode(4, 6, fw),
		vNode(4, 4, []byte{f0, 0, f1, 0, 0, 0}),
		vNode(0x7f, 0xff, nil),
	)
	in := vCat(vLE32(attrs), vLE16(uint16(len(nodes))), []byte{d0, 0, d1, 0, 0, 0}, nodes)

	var lo EFILoadOption
	err := lo.Unmarshal(bytes.NewBuffer(in))
	vsym.Assert(err == nil, "a load option built from the supported node kinds decodes")
	vsym.Assert(lo.Attributes == attributes.Attributes(attrs), "attributes recovered")
	vsym.Assert(lo.FilePathListLength == uint16(len(nodes)), "path-list length recovered")
	vsym.AssertBytesEq([]byte(lo.Description), []byte{d0, d1}, "description recovered")
	vsym.Assert(len(lo.FilePath) == 6, "one decoded node per encoded node (end node excluded)")

	p, ok := lo.FilePath[0].(PCIDevicePath)
	vsym.Assert(ok, "PCI node decoded")
	vsym.Assert(vsym.And(p.Function[0] == pci[0], p.Device[0] == pci[1]), "PCI function/device recovered")
	a, ok := lo.FilePath[1].(ACPIDevicePath)
	vsym.Assert(ok, "ACPI node decoded")
	vsym.AssertBytesEq(append(a.HID[:], a.UID[:]...), acpi, "ACPI HID/UID recovered")
	h, ok := lo.FilePath[2].(HardDriveMediaDevicePath)
	vsym.Assert(ok, "hard-drive node decoded")
	vsym.Assert(vsym.And(h.PartitionNumber == partNum, h.PartitionFormat == pfmt, h.SignatureType == sigType), "partition number/format/signature type recovered")
	vsym.AssertBytesEq(h.PartitionSignature[:], sig, "partition signature recovered")
	vsym.AssertBytesEq(h.PartitionStart[:2], vLE16(start), "partition start recovered")
	vsym.AssertBytesEq(h.PartitionSize[:2], vLE16(size), "partition size recovered")
	u, ok := lo.FilePath[3].(USBMessagingDevicePath)
	vsym.Assert(ok, "USB node decoded")
	vsym.Assert(vsym.And(u.USBParentPortNumber == usb[0], u.Interface == usb[1]), "USB port/interface recovered")
	fwn, ok := lo.FilePath[4].(FirmwareFielMediaDevicePath)
	vsym.Assert(ok, "firmware-file node decoded")
	vsym.AssertBytesEq(fwn.FirmwareFileName[:], fw, "firmware file name recovered")
	fp, ok := lo.FilePath[5].(FileTypeMediaDevicePath)
	vsym.Assert(ok, "file-path node decoded")
	vsym.AssertBytesEq([]byte(fp.PathName), []byte{f0, f1}, "file path recovered")

	// text forms (UEFI 2.8 §10.6.1.6): File(path) and HD(n,MBR|GPT,signature,0xstart,0xsize)
	vsym.AssertBytesEq([]byte(fp.Format()), vCat([]byte("File("), []byte{f0, f1}, []byte(")")), "file-path node renders as File(path)")
	name := []byte("MBR")
	if pfmt == 2 {
		name = []byte("GPT")
	}
	num := []byte{'0' + byte(partNum%10)}
	if partNum >= 10 {
		num = []byte{'0' + byte(partNum/10), '0' + byte(partNum%10)}
	}
	sigText := vGUIDTextEFI(sig)
	if sigType == 1 {
		sigText = []byte{'0', 'x', vLower(sig[3] >> 4), vLower(sig[3] & 15), vLower(sig[2] >> 4), vLower(sig[2] & 15),
			vLower(sig[1] >> 4), vLower(sig[1] & 15), vLower(sig[0] >> 4), vLower(sig[0] & 15)}
	}
	wantHD := vCat([]byte("HD("), num, []byte(","), name, []byte(","), sigText, []byte(",0x"), vHex16(start), []byte(",0x"), vHex16(size), []byte(")"))
	vsym.AssertBytesEq([]byte(h.Format()), wantHD, "hard-drive node renders as HD(n,type,signature,0xstart,0xsize)")
	vsym.Reach("end")
}

// vUnit: a symbolic UTF-16 code unit that is a scalar value on its own (not NUL, not a surrogate).
func vUnit(name string) uint16 {
	u := vsym.U16(name)
	vsym.Assume(vsym.And(u != 0, vsym.Or(u < 0xD800, u > 0xDFFF)))
	return u
}

// vUTF8: UTF-8 of a BMP scalar value, from the definition.
func vUTF8(u uint16) []byte {
	switch {
	case u < 0x80:
		return []byte{byte(u)}
	case u < 0x800:
		return []byte{0xC0 | byte(u>>6), 0x80 | byte(u)&0x3F}
	}
	return []byte{0xE0 | byte(u>>12), 0x80 | byte(u>>6)&0x3F, 0x80 | byte(u)&0x3F}
}

// VC18_LoadOptionStrings: description and file-path name of two UTF-16 code units each, any BMP
// scalar value except NUL (non-ASCII text), in a load option with a file-path node and an end node.
func VC18_LoadOptionStrings() {
	attrs := vsym.U32("attrs")
	d0, d1 := vUnit("d0"), vUnit("d1")
	f0, f1 := vUnit("f0"), vUnit("f1")
	desc8 := vCat(vUTF8(d0), vUTF8(d1))
	path8 := vCat(vUTF8(f0), vUTF8(f1))
	// the path name is optionally long (two symbolic units after 130 fixed ones): the node then
	// needs both bytes of its 16-bit length
	var filler, filler8 []byte
	if vsym.Bool("long.path") {
		for i := 0; i < 130; i++ {
			filler = append(filler, 'a'+byte(i%26), 0)
			filler8 = append(filler8, 'a'+byte(i%26))
		}
		path8 = vCat(filler8, path8)
	}
	nodes := vCat(vNode(4, 4, vCat(filler, vLE16(f0), vLE16(f1), []byte{0, 0})), vNode(0x7f, 0xff, nil))
	in := vCat(vLE32(attrs), vLE16(uint16(len(nodes))), vLE16(d0), vLE16(d1), []byte{0, 0}, nodes)
	var lo EFILoadOption
	err := lo.Unmarshal(bytes.NewBuffer(in))
	vsym.Assert(err == nil, "a load option with non-ASCII description and path decodes")
	vsym.Assert(lo.Attributes == attributes.Attributes(attrs), "attributes recovered")
	vsym.AssertBytesEq([]byte(lo.Description), desc8, "description recovered")
	vsym.Assert(len(lo.FilePath) == 1, "one decoded node (end node excluded)")
	fp, ok := lo.FilePath[0].(FileTypeMediaDevicePath)
	vsym.Assert(ok, "file-path node decoded")
	vsym.AssertBytesEq([]byte(fp.PathName), path8, "file path recovered")
	vsym.AssertBytesEq([]byte(fp.Format()), vCat([]byte("File("), path8, []byte(")")), "file-path node renders as File(path)")
	vsym.Reach("end")
}

func vCat(parts ...[]byte) []byte {
	var out []byte
	for _, p := range parts {
		out = append(out, p...)
	}
	return out
}
