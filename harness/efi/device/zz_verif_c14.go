package device

import (
	"bytes"

	"github.com/foxboron/go-uefi/internal/vsym"
)

var vsymC14Max = 48
var vsymC14Path = 10

func VC14_LoadOption() {
	in := vsym.Bytes("in", vsymC14Max)
	in = in[:vsym.Concrete(len(in), 1<<12)] // case-split the length: positions are concrete on each path
	vsym.AllocBound(8*len(in) + 8192)
	vsym.MustTerminate()
	// the UTF-16 decoder forks per code unit: bound the description (header is 6 bytes)
	if len(in) >= 6+vsymC14Path {
		t := false
		for i := 6; i+1 < 6+vsymC14Path; i += 2 {
			t = vsym.Or(t, vsym.And(in[i] == 0, in[i+1] == 0))
		}
		vsym.Assume(t)
	}
	var lo EFILoadOption
	if err := lo.Unmarshal(bytes.NewBuffer(in)); err == nil {
		for _, n := range lo.FilePath {
			if n != nil {
				_ = n.Format()
			}
		}
	}
	vsym.Reach("end")
}

// VC14_DevicePath: the node loop alone on a fully symbolic byte string.
func VC14_DevicePath() {
	in := vsym.Bytes("in", vsymC14Max)
	in = in[:vsym.Concrete(len(in), 1<<12)] // case-split the length: positions are concrete on each path
	vsym.AllocBound(8*len(in) + 8192)
	vsym.MustTerminate()
	nodes, err := ParseDevicePath(bytes.NewReader(in))
	if err == nil {
		for _, n := range nodes {
			if n != nil {
				_ = n.Format()
			}
		}
	}
	vsym.Reach("end")
}

// VC14_MediaNode: one media node with symbolic header and body, then its text form.
func VC14_MediaNode() {
	in := vsym.Bytes("in", 44)
	in = in[:vsym.Concrete(len(in), 1<<12)] // case-split the length: positions are concrete on each path
	vsym.AllocBound(8*len(in) + 8192)
	vsym.MustTerminate()
	hdr := EFIDevicePath{Type: MediaDevicePath, SubType: DevicePathSubType(vsym.U8("subtype"))}
	if hdr.SubType == FilePathDevicePath {
		// the UTF-16 decoder forks per code unit: file paths are bounded separately
		vsym.Assume(len(in) <= vsymC14Path)
	}
	n, err := ParseMediaDevicePath(bytes.NewReader(in), &hdr)
	if err == nil && n != nil {
		_ = n.Format()
	}
	vsym.Reach("end")
}
