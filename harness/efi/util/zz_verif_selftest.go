// This file holds tiny programs with known outcomes; they run through the executor and,
// as witnesses, natively (vcheck selftest).  A failing assertion here is an executor bug.
package util

import (
	"bytes"
	"encoding/binary"
	"errors"
	"fmt"
	"io"
	"reflect"
	"sort"
	"strings"

	"github.com/foxboron/go-uefi/internal/vsym"
)

type shape interface{ area() int }
type sq struct{ s int }
type rect struct{ w, h int }

func (s sq) area() int    { return s.s * s.s }
func (r *rect) area() int { return r.w * r.h }

var errBase = errors.New("base")

func recovers() (r int) {
	defer func() {
		if x := recover(); x != nil {
			r = 42
		}
	}()
	var a []int
	_ = a[3]
	return 1
}

func deferOrder() string {
	s := ""
	for i := 0; i < 3; i++ {
		defer func(i int) { s += fmt.Sprintf("%d", i) }(i)
	}
	return s
}

func deferOrderResult() (s string) {
	defer func() { s += "c" }()
	defer func() { s += "b" }()
	return "a"
}

// VST_Semantics: concrete Go semantics the interpreter must get right.
func VST_Semantics() {
	// nil and empty slices are different values
	emptyB, emptyS := []uint8{}, []string{}
	var nilB []uint8
	var nilS []string
	madeB := make([]byte, 0)
	vsym.Assert(emptyB != nil && madeB != nil && emptyS != nil, "empty slices are not nil")
	vsym.Assert(nilB == nil && nilS == nil, "nil slices are nil")
	vsym.Assert(!reflect.DeepEqual(emptyB, nilB), "DeepEqual tells an empty byte slice from a nil one")
	vsym.Assert(!reflect.DeepEqual(emptyS, nilS), "DeepEqual tells an empty slice from a nil one")
	vsym.Assert(reflect.DeepEqual(emptyB, madeB), "DeepEqual of two empty byte slices")
	vsym.Assert(append(nilB, emptyB...) == nil, "appending nothing to nil stays nil")
	// wrap-around and conversions
	var u8 uint8 = 250
	u8 += 10
	vsym.Assert(u8 == 4, "uint8 wraps")
	var i8 int8 = 127
	i8++
	vsym.Assert(i8 == -128, "int8 wraps")
	m1 := int8(-1)
	vsym.Assert(uint32(m1) == 0xffffffff, "sign extension on conversion")
	big := 0x12345
	vsym.Assert(uint16(big) == 0x2345, "truncation on conversion")
	m7 := -7
	vsym.Assert(m7/2 == -3 && m7%2 == -1, "signed division truncates toward zero")
	var sh uint = 70
	vsym.Assert(uint32(1)<<sh == 0, "over-wide shift yields zero")
	m8 := int32(-8)
	vsym.Assert(m8>>sh == -1, "over-wide arithmetic shift keeps the sign")
	vsym.Assert(6&^3 == 4, "and-not")
	// slices alias through append when capacity allows
	a := make([]byte, 2, 8)
	b := append(a, 7)
	c := append(a, 9)
	vsym.Assert(b[2] == 9 && c[2] == 9, "append within capacity aliases")
	d := append(a[:2:2], 1)
	d[0] = 5
	vsym.Assert(a[0] == 0, "append beyond capacity copies")
	// generic slices
	xs := []int{3, 1, 2}
	ys := xs[:2]
	ys = append(ys, 9)
	vsym.Assert(xs[2] == 9, "generic append aliases")
	sort.Ints(xs)
	vsym.Assert(xs[0] == 1 && xs[2] == 9, "sort.Ints")
	// arrays are values, structs are values
	type pt struct {
		x  int
		bs [2]byte
	}
	p := pt{1, [2]byte{1, 2}}
	q := p
	q.bs[0] = 9
	vsym.Assert(p.bs[0] == 1, "arrays in structs are copied")
	// interfaces and method sets
	var sh1 shape = sq{3}
	var sh2 shape = &rect{2, 5}
	vsym.Assert(sh1.area()+sh2.area() == 19, "interface dispatch")
	_, isSq := sh2.(sq)
	vsym.Assert(!isSq, "failed type assertion with comma-ok")
	// closures capture by reference
	n := 0
	inc := func() { n++ }
	inc()
	inc()
	vsym.Assert(n == 2, "closure captures by reference")
	// defer / recover
	vsym.Assert(recovers() == 42, "recover in deferred function sets the named result")
	vsym.Assert(deferOrderResult() == "abc", "deferred functions run LIFO after the result is set")
	_ = deferOrder()
	// maps
	m := map[string]int{"a": 1}
	m["b"] = 2
	delete(m, "a")
	_, okA := m["a"]
	vsym.Assert(!okA && len(m) == 1 && m["b"] == 2, "map insert/delete/lookup")
	// errors
	w := fmt.Errorf("wrapped: %w", errBase)
	vsym.Assert(errors.Is(w, errBase) && !errors.Is(errBase, w), "errors.Is follows %w")
	vsym.Assert(errors.Is(fmt.Errorf("x: %w", io.EOF), io.EOF), "errors.Is with io.EOF")
	// strings
	s := "héllo"
	vsym.Assert(len(s) == 6 && s[1] == 0xc3, "strings are bytes")
	cnt := 0
	for range s {
		cnt++
	}
	vsym.Assert(cnt == 5, "range over string iterates runes")
	vsym.Assert(fmt.Sprintf("%04x-%d-%s-%x", 0xab, 42, "z", []byte{1, 0xff}) == "00ab-42-z-01ff", "Sprintf verbs")
	// encoding/binary and bytes.Buffer
	var buf bytes.Buffer
	binary.Write(&buf, binary.LittleEndian, uint32(0x01020304))
	binary.Write(&buf, binary.BigEndian, uint16(0x0506))
	vsym.Assert(bytes.Equal(buf.Bytes(), []byte{4, 3, 2, 1, 5, 6}), "binary.Write byte order")
	var v32 uint32
	err := binary.Read(&buf, binary.LittleEndian, &v32)
	vsym.Assert(err == nil && v32 == 0x01020304 && buf.Len() == 2, "binary.Read consumes")
	var v64 uint64
	err = binary.Read(&buf, binary.LittleEndian, &v64)
	vsym.Assert(err == io.ErrUnexpectedEOF, "short binary.Read is ErrUnexpectedEOF")
	err = binary.Read(&buf, binary.LittleEndian, &v64)
	vsym.Assert(err == io.EOF, "empty binary.Read is EOF")
	vsym.Reach("end")
}

// VST_Symbolic: the same kind of facts over symbolic values (decided by the solver).
func VST_Symbolic() {
	x := vsym.U32("x")
	y := vsym.U8("y")
	// library summaries against definitions written out here: ToLower, TrimLeft, Index, EqualFold
	t := vsym.BytesN("text", 3)
	low := make([]byte, 3)
	for i, c := range t {
		low[i] = vsym.IteU8(vsym.And(c >= 'A', c <= 'Z'), c+32, c)
	}
	if vsym.And(t[0] < 0x80, t[1] < 0x80, t[2] < 0x80) {
		vsym.AssertBytesEq([]byte(strings.ToLower(string(t))), low, "ToLower of ASCII text")
		tr := strings.TrimLeft(string(t), "0x")
		k := 0
		for k < 3 && (t[k] == '0' || t[k] == 'x') {
			k++
		}
		vsym.AssertBytesEq([]byte(tr), t[k:], "TrimLeft strips the leading characters of the set")
		vsym.Assert(strings.EqualFold(string(t), string(low)), "EqualFold of a text and its lower-case form")
	}
	idx := bytes.Index(t, []byte{'a', 'b'})
	want := -1
	if vsym.And(t[0] == 'a', t[1] == 'b') {
		want = 0
	} else if vsym.And(t[1] == 'a', t[2] == 'b') {
		want = 1
	}
	vsym.Assert(idx == want, "Index is the first occurrence")
	vsym.Assert(x+1 > x || x == 0xffffffff, "unsigned overflow only at the maximum")
	vsym.Assert(uint32(uint8(x)) == x&0xff, "truncation is masking")
	vsym.Assert(int8(y) < 0 == (y >= 128), "sign of a reinterpreted byte")
	b := []byte{byte(x), byte(x >> 8), byte(x >> 16), byte(x >> 24)}
	vsym.Assert(binary.LittleEndian.Uint32(b) == x, "little-endian round trip")
	vsym.Assert(binary.BigEndian.Uint32(b) == x<<24|x>>24|(x&0xff00)<<8|(x>>8)&0xff00, "big-endian is the byte swap")
	in := vsym.Bytes("in", 8)
	r := bytes.NewReader(in)
	var v uint16
	err := binary.Read(r, binary.LittleEndian, &v)
	vsym.Assert((err == nil) == (len(in) >= 2), "binary.Read succeeds iff enough bytes")
	if err == nil {
		vsym.Assert(v == uint16(in[0])|uint16(in[1])<<8, "value read")
		vsym.Assert(r.Len() == len(in)-2, "bytes consumed")
	}
	s := fmt.Sprintf("%02x", y)
	vsym.Assert(len(s) == 2, "Sprintf width")
	vsym.Reach("end")
}
