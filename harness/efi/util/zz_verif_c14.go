package util

import (
	"bytes"

	"github.com/foxboron/go-uefi/internal/vsym"
)

var vsymC14Max = 16

func vC14Input() []byte {
	in := vsym.Bytes("in", vsymC14Max)
	in = in[:vsym.Concrete(len(in), 1<<12)] // case-split the length: positions are concrete on each path
	vsym.AllocBound(8*len(in) + 8192)
	vsym.MustTerminate()
	return in
}

func VC14_ParseUtf16Var() {
	in := vC14Input()
	ParseUtf16Var(bytes.NewBuffer(in))
	vsym.Reach("end")
}

func VC14_ReadNullString() {
	in := vC14Input()
	ReadNullString(bytes.NewReader(in))
	vsym.Reach("end")
}

func VC14_BytesToGUID() {
	in := vC14Input()
	g := BytesToGUID(in)
	_ = g.Format()
	vsym.Reach("end")
}

func VC14_StringToGUID() {
	// canonical layout with 3 symbolic characters (the rest fixed), plus a fully symbolic short text
	in := vsym.BytesN("in", 3)
	vsym.MustTerminate()
	txt := []byte("8be4df61-93ca-11d2-aa0d-00e098032b8c")
	for i, p := range []int{0, 8, 35} {
		txt[p] = in[i]
	}
	g := StringToGUID(string(txt))
	_ = g.Format()
	short := vsym.Bytes("short", 4)
	short = short[:vsym.Concrete(len(short), 16)]
	g2 := StringToGUID(string(short))
	_ = g2.Format()
	vsym.Reach("end")
}

// VC14_ReadKey: the PEM key decoder on every kind of PKCS#8 key the standard library can return
// (RSA, ECDSA, Ed25519, X25519), on a PEM block that is not a key, and on text that is not PEM:
// a key or an error, never a panic.
func VC14_ReadKey() {
	var in []byte
	kind := vsym.Pick("key.kind", 6)
	if kind == 5 {
		in = vsym.Bytes("notpem", 8)
	} else {
		in = vsym.KeyPEM(kind)
	}
	vsym.MustTerminate()
	k, err := ReadKey(in)
	vsym.Assert((k != nil) == (err == nil), "the decoder returns a key or an error")
	vsym.Assert(vsym.Implies(kind != 0, err != nil), "anything but an RSA key is refused with an error")
	vsym.Reach("end")
}
