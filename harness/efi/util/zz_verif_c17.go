package util

import (
	"bytes"
	"encoding/binary"

	"github.com/foxboron/go-uefi/internal/vsym"
)

func vHex(n byte, upper bool) byte {
	a := byte('a')
	if upper {
		a = 'A'
	}
	return vsym.IteU8(n < 10, '0'+n, a+n-10)
}

// vGUIDText is the canonical 36-character text of a GUID written from the definition:
// Data1-Data2-Data3-Data4[0..1]-Data4[2..7], big-endian nibbles.
func vGUIDText(g EFIGUID, upper bool) []byte {
	be := []byte{byte(g.Data1 >> 24), byte(g.Data1 >> 16), byte(g.Data1 >> 8), byte(g.Data1),
		byte(g.Data2 >> 8), byte(g.Data2), byte(g.Data3 >> 8), byte(g.Data3)}
	be = append(be, g.Data4[:]...)
	var out []byte
	for i, b := range be {
		if i == 4 || i == 6 || i == 8 || i == 10 {
			out = append(out, '-')
		}
		out = append(out, vHex(b>>4, upper), vHex(b&15, upper))
	}
	return out
}

func vSymGUID(name string) EFIGUID {
	g := EFIGUID{Data1: vsym.U32(name + ".d1"), Data2: vsym.U16(name + ".d2"), Data3: vsym.U16(name + ".d3")}
	copy(g.Data4[:], vsym.BytesN(name+".d4", 8))
	return g
}

// VC17_GUID covers all 2^128 GUID values symbolically.
func VC17_GUID() {
	g := vSymGUID("g")
	s := g.Format()
	vsym.AssertBytesEq([]byte(s), vGUIDText(g, false), "Format is the canonical lower-case text")
	g2 := StringToGUID(s)
	vsym.Assert(*g2 == g, "StringToGUID(Format(g)) = g")
	g3 := StringToGUID(string(vGUIDText(g, true)))
	vsym.Assert(*g3 == g, "parsing the upper-case text returns the same GUID")
	b := GUIDToBytes(&g)
	want := []byte{byte(g.Data1 >> 24), byte(g.Data1 >> 16), byte(g.Data1 >> 8), byte(g.Data1),
		byte(g.Data2 >> 8), byte(g.Data2), byte(g.Data3 >> 8), byte(g.Data3)}
	want = append(want, g.Data4[:]...)
	vsym.AssertBytesEq(b, want, "GUIDToBytes is Data1..3 big-endian then Data4")
	vsym.AssertBytesEq(g.Bytes(), want, "Bytes() is the same")
	g4 := BytesToGUID(b)
	vsym.Assert(*g4 == g, "BytesToGUID(GUIDToBytes(g)) = g")
	var wb bytes.Buffer
	WriteGUID(&wb, &g)
	vsym.AssertBytesEq(wb.Bytes(), want, "WriteGUID writes the big-endian byte form")
	// in-structure (wire) form used by the list and descriptor encoders
	var le bytes.Buffer
	binary.Write(&le, binary.LittleEndian, g)
	wire := []byte{byte(g.Data1), byte(g.Data1 >> 8), byte(g.Data1 >> 16), byte(g.Data1 >> 24),
		byte(g.Data2), byte(g.Data2 >> 8), byte(g.Data3), byte(g.Data3 >> 8)}
	wire = append(wire, g.Data4[:]...)
	vsym.AssertBytesEq(le.Bytes(), wire, "in-structure form is Data1..3 little-endian then Data4")
	var back EFIGUID
	binary.Read(bytes.NewReader(wire), binary.LittleEndian, &back)
	vsym.Assert(back == g, "in-structure form decodes to the same GUID")
	vsym.Reach("end")
}

// VC17_GUIDCompare: equality is field-wise (two symbolic GUIDs).
func VC17_GUIDCompare() {
	a, b := vSymGUID("a"), vSymGUID("b")
	same := vsym.And(a.Data1 == b.Data1, a.Data2 == b.Data2, a.Data3 == b.Data3, a.Data4 == b.Data4)
	vsym.Assert(CmpEFIGUID(a, b) == same, "CmpEFIGUID is field-wise equality")
	vsym.Assert(vsym.Implies(CmpEFIGUID(a, b), a == b), "equal GUIDs compare equal with ==")
	// conversions of one GUID are values of their own: converting another GUID later does not change them
	ba, sa := GUIDToBytes(&a), a.Format()
	ba2 := a.Bytes()
	bb, sb := GUIDToBytes(&b), b.Format()
	bb2 := b.Bytes()
	wantA := []byte{byte(a.Data1 >> 24), byte(a.Data1 >> 16), byte(a.Data1 >> 8), byte(a.Data1), byte(a.Data2 >> 8), byte(a.Data2), byte(a.Data3 >> 8), byte(a.Data3)}
	wantA = append(wantA, a.Data4[:]...)
	wantB := []byte{byte(b.Data1 >> 24), byte(b.Data1 >> 16), byte(b.Data1 >> 8), byte(b.Data1), byte(b.Data2 >> 8), byte(b.Data2), byte(b.Data3 >> 8), byte(b.Data3)}
	wantB = append(wantB, b.Data4[:]...)
	vsym.AssertBytesEq(ba, wantA, "bytes of the first GUID are unaffected by converting the second")
	vsym.AssertBytesEq(ba2, wantA, "Bytes() of the first GUID is unaffected by converting the second")
	vsym.AssertBytesEq(bb, wantB, "bytes of the second GUID")
	vsym.AssertBytesEq(bb2, wantB, "Bytes() of the second GUID")
	vsym.AssertBytesEq([]byte(sa), vGUIDText(a, false), "text of the first GUID is unaffected by formatting the second")
	vsym.AssertBytesEq([]byte(sb), vGUIDText(b, false), "text of the second GUID")
	vsym.Assert(*BytesToGUID(ba) == a && *BytesToGUID(bb) == b, "both byte forms parse back to their GUIDs")
	vsym.Reach("end")
}

var vsymC17Runes = 2

// vRune: a symbolic Unicode scalar value (not NUL, not a surrogate).
func vRune(name string) rune {
	r := rune(vsym.U32(name))
	vsym.Assume(vsym.And(r > 0, r <= 0x10FFFF, vsym.Or(r < 0xD800, r > 0xDFFF)))
	return r
}

// vUTF16LE: reference UTF-16LE of a scalar value (surrogate pair for non-BMP), from the definition.
func vUTF16LE(r rune) []byte {
	if r < 0x10000 {
		return []byte{byte(r), byte(r >> 8)}
	}
	v := r - 0x10000
	hi, lo := 0xD800+(v>>10), 0xDC00+(v&0x3FF)
	return []byte{byte(hi), byte(hi >> 8), byte(lo), byte(lo >> 8)}
}

// VC17_UTF16: every NUL-free string of 0..vsymC17Runes symbolic code points.
func VC17_UTF16() {
	n := vsym.Pick("runes", vsymC17Runes+1)
	names := []string{"r0", "r1", "r2", "r3"}
	s := ""
	var want []byte
	for i := 0; i < n; i++ {
		r := vRune(names[i])
		s += string(r)
		want = append(want, vUTF16LE(r)...)
	}
	want = append(want, 0, 0)
	enc := MarshalUtf16Var(s)
	vsym.AssertBytesEq(enc, want, "encoding is UTF-16LE plus one NUL terminator")
	dec, err := ParseUtf16Var(bytes.NewBuffer(append([]byte{}, enc...)))
	vsym.Assert(err == nil, "decoding an encoded string succeeds")
	vsym.AssertBytesEq([]byte(dec), []byte(s), "decoding returns the original string")
	// the two-byte NUL scan: exactly the code units up to and including the first NUL unit are
	// taken from the reader (both concrete reader kinds the library uses), whatever follows
	tail := vsym.BytesN("tail", 3)
	rb := bytes.NewBuffer(append(append([]byte{}, want...), tail...))
	vsym.AssertBytesEq(ReadNullString(rb), want, "ReadNullString returns the string with its terminator")
	vsym.AssertBytesEq(rb.Bytes(), tail, "ReadNullString leaves what follows the terminator unread")
	rr := bytes.NewReader(append(append([]byte{}, want...), tail...))
	vsym.AssertBytesEq(ReadNullString(rr), want, "ReadNullString (bytes.Reader) returns the string with its terminator")
	vsym.Assert(rr.Len() == len(tail), "ReadNullString (bytes.Reader) leaves what follows the terminator unread")
	// input without the terminator is an error
	_, err2 := ParseUtf16Var(bytes.NewBuffer(append([]byte{}, want[:len(want)-2]...)))
	vsym.Assert(err2 != nil, "decoding input without the terminator is an error")
	vsym.Reach("end")
}
