package signature

import (
	"bytes"

	"github.com/foxboron/go-uefi/internal/vsym"
)

var vsymC07Max = 120

// vAssumeWellFormedDB restricts `in` to the well-formed language: a sequence of
// EFI_SIGNATURE_LISTs of the decodable types (UEFI 2.8 §32.4.1), stated over the raw bytes.
// Size fields are case-split so that all offsets are concrete on each path.
func vAssumeWellFormedDB(in []byte) {
	off := 0
	for off != len(in) {
		rest := uint32(len(in) - off)
		vsym.Assume(rest >= 28)
		ls := vU32(in, off+16)
		hs := vU32(in, off+20)
		size := vU32(in, off+24)
		t := vGUIDAt(in, off)
		vsym.Assume(vsym.And(ls >= 28, ls <= rest, hs == 0, size >= 16, size <= 1<<16))
		vsym.Assume(vsym.Or(ls == 28, size <= ls-28))
		vsym.Assume((ls-28)%size == 0)
		vsym.Assume(vsym.Or(t == CERT_X509_GUID, vsym.And(t == CERT_SHA256_GUID, size == 48), vsym.And(t == CERT_EXTERNAL_MANAGEMENT_GUID, size == 17)))
		off += vsym.Concrete(int(ls), 1<<16)
	}
}

// VC07_DecodeEncodeWellFormed: every well-formed stream of at most vsymC07Max bytes is
// accepted, decodes to the specified lists, and re-encodes to the same bytes.
func VC07_DecodeEncodeWellFormed() {
	in := vsym.Bytes("in", vsymC07Max)
	vAssumeWellFormedDB(in)
	vsym.Reach("wellformed")
	db, err := ReadSignatureDatabase(bytes.NewReader(in))
	vsym.Assert(err == nil, "well-formed stream is accepted")
	vCheckDecoded(in, db)
	out := db.Bytes()
	vsym.AssertBytesEq(out, in, "encoding the decoded database reproduces the input")
	// and the variable-file route (Unmarshal / Marshal)
	var db2 SignatureDatabase
	err2 := db2.Unmarshal(bytes.NewBuffer(in))
	vsym.Assert(err2 == nil, "Unmarshal accepts a well-formed stream")
	var b bytes.Buffer
	db2.Marshal(&b)
	vsym.AssertBytesEq(b.Bytes(), in, "Marshal(Unmarshal(x)) = x")
	vsym.Reach("end")
}

// VC07_BuiltRoundTrip (converse direction, inductive step): a database satisfying the representation
// invariant (C09 pre-states) after one library operation (Append with raw or PEM data, or Remove)
// encodes to a stream that decodes to an equal database (lists of the decodable types).
func VC07_BuiltRoundTrip() {
	db, _ := vPreState()
	t, owner, data, _ := vOpArgs(true)
	if vsym.Pick("op", 2) == 0 {
		db.Append(t, owner, data)
	} else {
		db.Remove(t, owner, data)
	}
	for _, l := range *db {
		if l.SignatureType != CERT_SHA256_GUID && l.SignatureType != CERT_X509_GUID {
			return // SHA-1 lists are valid but not decodable by this library
		}
	}
	enc := db.Bytes()
	back, err := ReadSignatureDatabase(bytes.NewReader(enc))
	vsym.Assert(err == nil, "a database built by the library encodes to a stream the decoder accepts")
	vSameFlat(vFlatten(&back), vFlatten(db), "decoding the encoding gives an equal database")
	vsym.Assert(len(back) == len(*db), "same number of lists")
	vsym.AssertBytesEq(back.Bytes(), enc, "and re-encodes to the same bytes")
	vsym.Reach("end")
}
