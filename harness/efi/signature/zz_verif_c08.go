package signature

import (
	"bytes"

	"github.com/foxboron/go-uefi/efi/util"
	"github.com/foxboron/go-uefi/internal/vsym"
)

func vU32(b []byte, o int) uint32 {
	return uint32(b[o]) | uint32(b[o+1])<<8 | uint32(b[o+2])<<16 | uint32(b[o+3])<<24
}
func vU16(b []byte, o int) uint16 { return uint16(b[o]) | uint16(b[o+1])<<8 }

// vGUIDAt reads a GUID in the EFI in-structure layout (Data1..3 little-endian, Data4 verbatim).
func vGUIDAt(b []byte, o int) util.EFIGUID {
	var g util.EFIGUID
	g.Data1 = vU32(b, o)
	g.Data2 = vU16(b, o+4)
	g.Data3 = vU16(b, o+6)
	copy(g.Data4[:], b[o+8:o+16])
	return g
}

// vCheckDecoded asserts that db is exactly the reading of `in` that UEFI 2.8 §32.4.1 defines:
// the lists tile the input, every size field satisfies the EFI_SIGNATURE_LIST equations and
// every owner / data field equals the input bytes at its specified offset.
func vCheckDecoded(in []byte, db SignatureDatabase) {
	off := 0
	for _, l := range db {
		vsym.Assert(off+28 <= len(in), "list header lies inside the input")
		// offsets are case-split (the decoder's own positions are concrete on each path)
		l.ListSize = uint32(vsym.Concrete(int(l.ListSize), 1<<16))
		l.HeaderSize = uint32(vsym.Concrete(int(l.HeaderSize), 1<<16))
		if len(l.Signatures) > 0 {
			l.Size = uint32(vsym.Concrete(int(l.Size), 1<<16))
		}
		vsym.Assert(l.SignatureType == vGUIDAt(in, off), "SignatureType equals the input field")
		vsym.Assert(l.ListSize == vU32(in, off+16), "ListSize equals the input field")
		vsym.Assert(l.HeaderSize == vU32(in, off+20), "HeaderSize equals the input field")
		vsym.Assert(l.Size == vU32(in, off+24), "SignatureSize equals the input field")
		vsym.Assert(l.Size >= 16, "SignatureSize is at least 16")
		n := len(l.Signatures)
		vsym.Assert(uint64(l.ListSize) == 28+uint64(l.HeaderSize)+uint64(n)*uint64(l.Size), "ListSize = 28 + HeaderSize + count*SignatureSize")
		vsym.Assert(off+int(l.ListSize) <= len(in), "list lies inside the input")
		if l.SignatureType == CERT_SHA256_GUID {
			vsym.Assert(l.Size == 48, "SHA-256 lists have SignatureSize 48")
		}
		_, supported := ValidEFISignatureSchemes[l.SignatureType]
		vsym.Assert(supported, "signature type is a known one")
		// only the list types the decoder implements are accepted; the other known types are "unsupported input"
		vsym.Assert(l.SignatureType == CERT_X509_GUID || l.SignatureType == CERT_SHA256_GUID || l.SignatureType == CERT_EXTERNAL_MANAGEMENT_GUID, "an accepted list has a supported type (X.509, SHA-256, external management)")
		base := off + 28 + int(l.HeaderSize)
		for k, s := range l.Signatures {
			eo := base + k*int(l.Size)
			vsym.Assert(s.Owner == vGUIDAt(in, eo), "owner equals the input bytes")
			vsym.Assert(len(s.Data) == int(l.Size)-16, "data length is SignatureSize-16")
			vsym.AssertBytesEq(s.Data, in[eo+16:eo+int(l.Size)], "data equals the input bytes")
		}
		off += int(l.ListSize)
	}
	vsym.Assert(off == len(in), "whole input consumed")
}

// VC08_AcceptOnlyWellFormed: every byte and the length of the input are symbolic.
func VC08_AcceptOnlyWellFormed() {
	in := vsym.Bytes("in", vsymC08Max)
	db, err := ReadSignatureDatabase(bytes.NewReader(in))
	if err != nil {
		vsym.Reach("reject")
		return
	}
	vsym.Reach("accept")
	vCheckDecoded(in, db)
	vsym.Reach("end")
}

var vsymC08Max = 160
