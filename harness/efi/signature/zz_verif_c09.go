package signature

import (
	"github.com/foxboron/go-uefi/efi/util"
	"github.com/foxboron/go-uefi/internal/vsym"
)

// One inductive step from an arbitrary valid state (DESIGN.md C09): the pre-state is a symbolic
// database of an enumerated shape satisfying the representation invariant; one operation with
// symbolic arguments; the abstract model is the ordered list of (type, owner, data) entries.

var vsymC09Lists = 2   // lists in the pre-state: 0..vsymC09Lists
var vsymC09Entries = 2 // entries per list: 1..vsymC09Entries

var vUnknownGUID = util.EFIGUID{Data1: 0xdeadbeef, Data2: 1, Data3: 2, Data4: [8]uint8{3, 4, 5, 6, 7, 8, 9, 10}}

type vEntry struct {
	typ   util.EFIGUID
	owner util.EFIGUID
	data  []byte
}

// list kinds of the pre-state: SHA-256, X.509 of 3 / 4 / 59 bytes (59 = length of the PEM text of a
// 3-byte certificate, so that "list chosen by the PEM length" is in the universe), SHA-1.
var vKindType = []util.EFIGUID{CERT_SHA256_GUID, CERT_X509_GUID, CERT_X509_GUID, CERT_X509_GUID, CERT_SHA1_GUID}
var vKindLen = []int{32, 3, 4, 59, 20}

func vSymGUID(name string) util.EFIGUID {
	return vGUIDAt(vsym.BytesN(name, 16), 0)
}

var vNames = []string{"e0", "e1", "e2", "e3", "e4", "e5", "e6", "e7", "e8"}

// vPreState builds a database satisfying Inv and returns it with its abstract view.
func vPreState() (*SignatureDatabase, []vEntry) {
	db := NewSignatureDatabase()
	var flat []vEntry
	nl := vsym.Pick("lists", vsymC09Lists+1)
	k := 0
	for i := 0; i < nl; i++ {
		kind := vsym.Pick("kind", len(vKindType))
		n := 1 + vsym.Pick("entries", vsymC09Entries)
		dl := vKindLen[kind]
		sl := &SignatureList{SignatureType: vKindType[kind], ListSize: uint32(28 + n*(16+dl)), HeaderSize: 0, Size: uint32(16 + dl),
			SignatureHeader: []uint8{}, Signatures: []SignatureData{}}
		for j := 0; j < n; j++ {
			e := SignatureData{Owner: vSymGUID(vNames[k] + ".owner"), Data: vsym.BytesN(vNames[k]+".data", dl)}
			k++
			for _, o := range sl.Signatures { // Inv: no list holds two identical entries
				vsym.Assume(!vsym.And(o.Owner == e.Owner, vBytesEq(o.Data, e.Data)))
			}
			sl.Signatures = append(sl.Signatures, e)
			flat = append(flat, vEntry{sl.SignatureType, e.Owner, e.Data})
		}
		// both in-memory forms of "no signature header" occur: lists read by the decoder carry a nil
		// slice, lists made by the constructor an empty one (even lists nil, odd lists empty)
		if i%2 == 0 {
			sl.SignatureHeader = nil
		}
		*db = append(*db, sl)
	}
	return db, flat
}

func vBytesEq(a, b []byte) bool {
	if len(a) != len(b) {
		return false
	}
	eq := true
	for i := range a {
		eq = vsym.And(eq, a[i] == b[i])
	}
	return eq
}

func vFlatten(db *SignatureDatabase) []vEntry {
	var flat []vEntry
	for _, l := range *db {
		for _, s := range l.Signatures {
			flat = append(flat, vEntry{l.SignatureType, s.Owner, s.Data})
		}
	}
	return flat
}

func vEntryEq(a, b vEntry) bool {
	return vsym.And(a.typ == b.typ, a.owner == b.owner, vBytesEq(a.data, b.data))
}

func vSameFlat(a, b []vEntry, label string) {
	vsym.Assert(len(a) == len(b), label+" (count)")
	for i := range a {
		vsym.Assert(vEntryEq(a[i], b[i]), label+" (entry)")
	}
}

// vInv asserts the representation invariant and that the encoding has the announced length.
func vInv(db *SignatureDatabase, label string) {
	total := 0
	for _, l := range *db {
		n := len(l.Signatures)
		vsym.Assert(n >= 1, label+": no empty list is kept")
		vsym.Assert(l.HeaderSize == 0 && len(l.SignatureHeader) == 0, label+": no signature header")
		vsym.Assert(uint64(l.ListSize) == 28+uint64(n)*uint64(l.Size), label+": ListSize = 28 + count*SignatureSize")
		for i, s := range l.Signatures {
			vsym.Assert(len(s.Data)+16 == int(l.Size), label+": every entry has SignatureSize bytes")
			for _, o := range l.Signatures[:i] {
				vsym.Assert(!vsym.And(o.Owner == s.Owner, vBytesEq(o.Data, s.Data)), label+": no list holds two identical entries")
			}
		}
		total += int(l.ListSize)
	}
	vsym.Assert(len(db.Bytes()) == total, label+": encoding has the announced length")
}

func vMember(flat []vEntry, e vEntry) bool {
	m := false
	for _, x := range flat {
		m = vsym.Or(m, vEntryEq(x, e))
	}
	return m
}

// vOpArgs returns symbolic operation arguments: (type, owner, data as passed, data as it must be stored).
func vOpArgs(allowPEM bool) (util.EFIGUID, util.EFIGUID, []byte, []byte) {
	types := []util.EFIGUID{CERT_SHA256_GUID, CERT_X509_GUID, CERT_SHA1_GUID, vUnknownGUID}
	lens := []int{32, 3, 4, 33, 20, 59}
	t := types[vsym.Pick("op.type", len(types))]
	dl := lens[vsym.Pick("op.len", len(lens))]
	owner := vSymGUID("op.owner")
	data := vsym.BytesN("op.data", dl)
	if allowPEM && dl <= 4 && vsym.Pick("op.pem", 2) == 1 {
		// the caller passes the PEM text of a DER certificate
		return t, owner, vsym.PEMOf(data), data
	}
	return t, owner, data, data
}

// VC09_Append: one append from an arbitrary valid state.
func VC09_Append() {
	db, pre := vPreState()
	t, owner, data, stored := vOpArgs(true)
	if t != CERT_X509_GUID {
		stored = data // only X.509 data is converted from PEM
	}
	_, known := ValidEFISignatureSchemes[t]
	// is the entry already in the list it belongs to (the first list of its type and size)?
	dup, fits := false, false
	for _, l := range *db {
		if !fits && l.SignatureType == t && int(l.Size) == 16+len(stored) {
			fits = true
			for _, s := range l.Signatures {
				dup = vsym.Or(dup, vsym.And(s.Owner == owner, vBytesEq(s.Data, stored)))
			}
		}
	}
	err := db.Append(t, owner, data)
	post := vFlatten(db)
	if err != nil {
		vsym.Reach("append-error")
		vSameFlat(post, pre, "a failed append changes nothing")
		vInv(db, "after failed append")
		return
	}
	vsym.Reach("append-ok")
	vsym.Assert(known, "append of an unknown signature type reports an error")
	vsym.Assert(!dup, "a duplicate append reports an error")
	if t == CERT_SHA256_GUID {
		vsym.Assert(len(data) == 32, "append of a wrongly-sized SHA-256 hash reports an error")
	}
	vsym.Assert(len(post) == len(pre)+1, "a successful append adds exactly one entry")
	// post is pre with the new entry inserted: find the insertion point
	i := 0
	for i < len(pre) && vEntryEq(post[i], pre[i]) {
		i++
	}
	vsym.Assert(vEntryEq(post[i], vEntry{t, owner, stored}), "the added entry is (type, owner, DER data)")
	for j := i; j < len(pre); j++ {
		vsym.Assert(vEntryEq(post[j+1], pre[j]), "all other entries keep content and relative order")
	}
	vInv(db, "after append")
	vsym.Reach("end")
}

// VC09_Remove: one remove from an arbitrary valid state.
func VC09_Remove() {
	db, pre := vPreState()
	t, owner, data, _ := vOpArgs(false)
	present := vMember(pre, vEntry{t, owner, data})
	err := db.Remove(t, owner, data)
	post := vFlatten(db)
	if err != nil {
		vsym.Reach("remove-error")
		vsym.Assert(!present, "removing a present entry succeeds")
		vSameFlat(post, pre, "a failed remove changes nothing")
		vInv(db, "after failed remove")
		return
	}
	vsym.Reach("remove-ok")
	vsym.Assert(present, "removing an absent entry reports an error")
	vsym.Assert(len(post) == len(pre)-1, "a successful remove deletes exactly one entry")
	// post is pre with one matching entry deleted: find the deletion point
	i := 0
	for i < len(post) && vEntryEq(post[i], pre[i]) {
		i++
	}
	vsym.Assert(vEntryEq(pre[i], vEntry{t, owner, data}), "the deleted entry is a matching one")
	for j := i; j < len(post); j++ {
		vsym.Assert(vEntryEq(post[j], pre[j+1]), "all other entries keep content and relative order")
	}
	vInv(db, "after remove")
	vsym.Reach("end")
}

// VC09_Membership: the membership queries agree with the abstract view.
func VC09_Membership() {
	db, pre := vPreState()
	t, owner, data, _ := vOpArgs(false)
	want := vMember(pre, vEntry{t, owner, data})
	vsym.Assert(db.BytesExists(t, owner, data) == want, "BytesExists agrees with the entry collection")
	vsym.Assert(db.SigDataExists(t, &SignatureData{Owner: owner, Data: data}) == want, "SigDataExists agrees with the entry collection")
	vsym.Reach("end")
}
