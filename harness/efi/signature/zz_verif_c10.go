package signature

import (
	"bytes"

	"github.com/foxboron/go-uefi/efi/util"
	"github.com/foxboron/go-uefi/internal/vsym"
)

var vsymC10Max = 100

func vTimeAt(b []byte, o int) util.EFITime {
	return util.EFITime{
		Year: vU16(b, o), Month: b[o+2], Day: b[o+3], Hour: b[o+4], Minute: b[o+5], Second: b[o+6], Pad1: b[o+7],
		Nanosecond: vU32(b, o+8), TimeZone: int16(vU16(b, o+12)), Daylight: b[o+14], Pad2: b[o+15],
	}
}

// VC10_DescriptorDecodeExact: a descriptor followed by an arbitrary payload; every byte symbolic.
func VC10_DescriptorDecodeExact() {
	in := vsym.Bytes("in", vsymC10Max)
	vsym.Assume(len(in) >= 40)
	dw := vU32(in, 16)
	vsym.Assume(vsym.And(dw >= 24, uint64(dw) <= uint64(len(in)-16)))
	// revision and certificate type are arbitrary: whenever decoding reports success, everything
	// below must hold (a descriptor of another revision or type is either refused or decoded exactly)
	wf := vsym.And(vU16(in, 20) == 0x0200, vU16(in, 22) == 0x0EF1)
	r := bytes.NewReader(in)
	d, err := ReadEFIVariableAuthencation2(r)
	if err != nil {
		vsym.Assert(!wf, "well-formed descriptor is accepted")
		var d3 EFIVariableAuthentication2
		vsym.Assert(d3.Unmarshal(bytes.NewBuffer(append([]byte{}, in...))) != nil, "Unmarshal refuses what the reader refuses")
		vsym.Reach("refused")
		return
	}
	n := vsym.Concrete(int(dw), 1<<17)
	vsym.Assert(r.Len() == len(in)-16-n, "decoding consumes exactly 16 + dwLength bytes")
	vsym.Assert(d.Time == vTimeAt(in, 0), "timestamp recovered")
	vsym.Assert(d.AuthInfo.Header.Length == dw, "dwLength recovered")
	vsym.Assert(d.AuthInfo.Header.Revision == vU16(in, 20), "revision recovered")
	vsym.Assert(uint16(d.AuthInfo.Header.CertType) == vU16(in, 22), "certificate type recovered")
	// the type GUID is stored in the EFI in-structure layout
	vsym.Assert(d.AuthInfo.CertType == vGUIDAt(in, 24), "type GUID recovered")
	vsym.AssertBytesEq(d.AuthInfo.CertData, in[40:16+n], "certificate data recovered")
	// payload untouched
	rest := make([]byte, r.Len())
	r.Read(rest)
	vsym.AssertBytesEq(rest, in[16+n:], "payload left untouched")
	// decoding another descriptor afterwards does not change the first value
	other := vCat16(vsym.BytesN("other.time", 16), []byte{28, 0, 0, 0, 0x00, 0x02, 0xf1, 0x0e}, vsym.BytesN("other.guid", 16), vsym.BytesN("other.data", 4))
	dd, errd := ReadEFIVariableAuthencation2(bytes.NewReader(other))
	vsym.Assert(errd == nil, "a second descriptor decodes")
	vsym.AssertBytesEq(dd.AuthInfo.CertData, other[40:], "certificate data of the second descriptor")
	vsym.AssertBytesEq(d.AuthInfo.CertData, in[40:16+n], "certificate data of the first descriptor is unaffected by the second decode")
	// encoding the decoded value reproduces the consumed bytes
	var b bytes.Buffer
	d.Marshal(&b)
	vsym.AssertBytesEq(b.Bytes(), in[:16+n], "encoding a decoded descriptor reproduces the consumed bytes")
	// Unmarshal route (what the variable readers use)
	var d2 EFIVariableAuthentication2
	buf := bytes.NewBuffer(append([]byte{}, in...))
	err2 := d2.Unmarshal(buf)
	vsym.Assert(err2 == nil, "Unmarshal accepts")
	vsym.AssertBytesEq(buf.Bytes(), in[16+n:], "Unmarshal leaves exactly the payload in the buffer")
	vsym.Reach("end")
}

// VC10_WinCertDecodeExact: plain WIN_CERTIFICATE followed by arbitrary bytes.
func VC10_WinCertDecodeExact() {
	in := vsym.Bytes("in", vsymC10Max)
	vsym.Assume(len(in) >= 8)
	dw := vU32(in, 0)
	vsym.Assume(vsym.And(dw >= 8, uint64(dw) <= uint64(len(in))))
	r := bytes.NewReader(in)
	c, err := ReadWinCertificate(r)
	if err != nil {
		vsym.Assert(vU16(in, 4) != 0x0200, "well-formed WIN_CERTIFICATE is accepted")
		vsym.Reach("refused")
		return
	}
	n := vsym.Concrete(int(dw), 1<<17)
	vsym.Assert(r.Len() == len(in)-n, "decoding consumes exactly dwLength bytes")
	vsym.Assert(c.Length == dw, "dwLength recovered")
	vsym.Assert(c.Revision == vU16(in, 4), "revision recovered")
	vsym.Assert(uint16(c.CertType) == vU16(in, 6), "certificate type recovered")
	vsym.AssertBytesEq(c.Certificate, in[8:n], "certificate bytes recovered")
	// a decoded value is a value of its own: decoding something else afterwards does not change it
	other := append([]byte{12, 0, 0, 0, 0x00, 0x02, 0x02, 0x00}, vsym.BytesN("other.body", 4)...)
	c2, err2 := ReadWinCertificate(bytes.NewReader(other))
	vsym.Assert(err2 == nil, "a second WIN_CERTIFICATE decodes")
	vsym.AssertBytesEq(c2.Certificate, other[8:], "certificate bytes of the second value")
	vsym.AssertBytesEq(c.Certificate, in[8:n], "certificate bytes of the first value are unaffected by the second decode")
	var b bytes.Buffer
	WriteWinCertificate(&b, &c)
	vsym.AssertBytesEq(b.Bytes(), in[:n], "encoding a decoded WIN_CERTIFICATE reproduces the consumed bytes")
	vsym.Reach("end")
}

// VC10_EncodeDecode: a value built from symbolic fields encodes to bytes that decode to an equal value.
func VC10_EncodeDecode() {
	data := vsym.Bytes("data", vsymC10Max)
	data = data[:vsym.Concrete(len(data), 1<<17)] // case-split the length
	payload := vsym.Bytes("payload", 24)
	payload = payload[:vsym.Concrete(len(payload), 64)]
	var d EFIVariableAuthentication2
	d.Time = vTimeAt(vsym.BytesN("time", 16), 0)
	d.AuthInfo.Header.Length = SizeofWinCertificateUEFIGUID + uint32(len(data))
	d.AuthInfo.Header.Revision = WIN_CERTIFICATE_REVISION
	d.AuthInfo.Header.CertType = WIN_CERT_TYPE_EFI_GUID
	d.AuthInfo.CertType = vGUIDAt(vsym.BytesN("guid", 16), 0)
	d.AuthInfo.CertData = data
	var b bytes.Buffer
	d.Marshal(&b)
	enc := append([]byte{}, b.Bytes()...)
	vsym.Assert(len(enc) == 40+len(data), "encoded length is 16 + dwLength")
	b.Write(payload)
	got, err := ReadEFIVariableAuthencation2(&b)
	vsym.Assert(err == nil, "library-encoded descriptor is accepted")
	vsym.Assert(got.Time == d.Time, "timestamp survives")
	vsym.Assert(got.AuthInfo.Header.Length == d.AuthInfo.Header.Length, "dwLength survives")
	vsym.Assert(got.AuthInfo.Header.Revision == d.AuthInfo.Header.Revision, "revision survives")
	vsym.Assert(got.AuthInfo.Header.CertType == d.AuthInfo.Header.CertType, "certificate type survives")
	vsym.Assert(got.AuthInfo.CertType == d.AuthInfo.CertType, "type GUID survives")
	vsym.AssertBytesEq(got.AuthInfo.CertData, data, "certificate data survives")
	vsym.AssertBytesEq(b.Bytes(), payload, "payload left in the buffer")
	var b2 bytes.Buffer
	got.Marshal(&b2)
	vsym.AssertBytesEq(b2.Bytes(), enc, "decode then encode is the identity on encoded values")
	vsym.Reach("end")
}

func vCat16(parts ...[]byte) []byte {
	var out []byte
	for _, p := range parts {
		out = append(out, p...)
	}
	return out
}
