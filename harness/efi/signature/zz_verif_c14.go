package signature

import (
	"bytes"

	"github.com/foxboron/go-uefi/internal/vsym"
)

var vsymC14Max = 64

// Obligations on every path (built into the executor): no panic, no log.Fatal/os.Exit,
// every allocation at most 8*len(in)+4096 bytes, termination within the unwinding bounds.
func vC14Input() []byte {
	in := vsym.Bytes("in", vsymC14Max)
	in = in[:vsym.Concrete(len(in), 1<<12)] // case-split the length: positions are concrete on each path
	vsym.AllocBound(8*len(in) + 4096)
	vsym.MustTerminate()
	return in
}

func VC14_SignatureDatabase() {
	in := vC14Input()
	db, err := ReadSignatureDatabase(bytes.NewReader(in))
	if err == nil {
		_ = db.Bytes()
	}
	vsym.Reach("end")
}

func VC14_SignatureDatabaseUnmarshal() {
	in := vC14Input()
	var db SignatureDatabase
	db.Unmarshal(bytes.NewBuffer(in))
	vsym.Reach("end")
}

func VC14_SignatureList() {
	in := vC14Input()
	ReadSignatureList(bytes.NewReader(in))
	vsym.Reach("end")
}

func VC14_AuthDescriptor() {
	in := vC14Input()
	ReadEFIVariableAuthencation2(bytes.NewReader(in))
	vsym.Reach("end")
}

func VC14_AuthDescriptorUnmarshal() {
	in := vC14Input()
	var d EFIVariableAuthentication2
	d.Unmarshal(bytes.NewBuffer(in))
	vsym.Reach("end")
}

func VC14_WinCertificate() {
	in := vC14Input()
	ReadWinCertificate(bytes.NewReader(in))
	vsym.Reach("end")
}

func VC14_WinCertificateUEFIGUID() {
	in := vC14Input()
	ReadWinCertificateUEFIGUID(bytes.NewReader(in))
	vsym.Reach("end")
}

func VC14_SupportedSignatures() {
	in := vC14Input()
	GetSupportedSignatures(bytes.NewReader(in))
	vsym.Reach("end")
}
