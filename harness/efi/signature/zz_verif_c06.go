package signature

import (
	"bytes"
	"crypto"
	"crypto/rand"
	"crypto/sha256"
	"time"

	"github.com/foxboron/go-uefi/efi/attributes"
	"github.com/foxboron/go-uefi/efi/util"
	"github.com/foxboron/go-uefi/efivar"
	"github.com/foxboron/go-uefi/internal/vsym"
)

var (
	vsymC06Name    = 3  // symbolic ASCII characters in the variable name
	vsymC06Payload = 40 // payload length bound (case-split)
)

type vPayload []byte

func (v vPayload) Marshal(b *bytes.Buffer) { b.Write(v) }
func (v vPayload) Bytes() []byte           { return v }

// reference DER helpers (X.690 minimal definite lengths)
func vDER(tag byte, content []byte) []byte {
	n := len(content)
	var h []byte
	switch {
	case n < 0x80:
		h = []byte{tag, byte(n)}
	case n <= 0xff:
		h = []byte{tag, 0x81, byte(n)}
	case n <= 0xffff:
		h = []byte{tag, 0x82, byte(n >> 8), byte(n)}
	default:
		h = []byte{tag, 0x83, byte(n >> 16), byte(n >> 8), byte(n)}
	}
	return append(h, content...)
}

func vCat(parts ...[]byte) []byte {
	var out []byte
	for _, p := range parts {
		out = append(out, p...)
	}
	return out
}

var (
	vOIDData      = []byte{0x06, 0x09, 0x2a, 0x86, 0x48, 0x86, 0xf7, 0x0d, 0x01, 0x07, 0x01}
	vOIDSHA256    = []byte{0x06, 0x09, 0x60, 0x86, 0x48, 0x01, 0x65, 0x03, 0x04, 0x02, 0x01}
	vOIDRSA       = []byte{0x06, 0x09, 0x2a, 0x86, 0x48, 0x86, 0xf7, 0x0d, 0x01, 0x01, 0x01}
	vOIDContentTy = []byte{0x06, 0x09, 0x2a, 0x86, 0x48, 0x86, 0xf7, 0x0d, 0x01, 0x09, 0x03}
	vOIDMsgDigest = []byte{0x06, 0x09, 0x2a, 0x86, 0x48, 0x86, 0xf7, 0x0d, 0x01, 0x09, 0x04}
	vOIDSignTime  = []byte{0x06, 0x09, 0x2a, 0x86, 0x48, 0x86, 0xf7, 0x0d, 0x01, 0x09, 0x05}
	vNULL         = []byte{0x05, 0x00}
)

// vRefDetachedSignedData: RFC 2315 SignedData (bare, no outer ContentInfo), detached, content type
// data, one RSA/SHA-256 signer with the three standard signed attributes over `signedBuf`.
func vRefDetachedSignedData(signedBuf, certRaw, issuer, serial []byte, now time.Time, signer crypto.Signer) []byte {
	md := sha256.Sum256(signedBuf)
	attrsInner := vCat(
		vDER(0x30, vCat(vOIDContentTy, vDER(0x31, vOIDData))),
		vDER(0x30, vCat(vOIDSignTime, vDER(0x31, vDER(0x17, []byte(now.Format("060102150405Z0700")))))),
		vDER(0x30, vCat(vOIDMsgDigest, vDER(0x31, vDER(0x04, md[:])))),
	)
	d := sha256.Sum256(vDER(0x31, attrsInner))
	sig, _ := signer.Sign(rand.Reader, d[:], crypto.SHA256)
	algSHA := vDER(0x30, vCat(vOIDSHA256, vNULL))
	ser := serial
	if ser[0]&0x80 != 0 {
		ser = append([]byte{0}, ser...)
	}
	si := vDER(0x30, vCat([]byte{0x02, 0x01, 0x01}, vDER(0x30, vCat(issuer, vDER(0x02, ser))), algSHA,
		vDER(0xa0, attrsInner), vDER(0x30, vCat(vOIDRSA, vNULL)), vDER(0x04, sig)))
	return vDER(0x30, vCat([]byte{0x02, 0x01, 0x01}, vDER(0x31, algSHA), vDER(0x30, vOIDData), vDER(0xa0, certRaw), vDER(0x31, si)))
}

// VC06_SignedUpdateLayout: the produced update is timestamp || WIN_CERTIFICATE_UEFI_GUID header ||
// bare detached SignedData over name||GUID||attributes||timestamp||payload || payload.
var vsymC06RawLen = 0 // > 0: length of the signing certificate (model); natively at least as long

func VC06_SignedUpdateLayout() {
	name := vsym.BytesN("name", vsymC06Name)
	for _, c := range name {
		vsym.Assume(vsym.And(c >= 0x20, c < 0x7f))
	}
	guid := vGUIDAt(vsym.BytesN("guid", 16), 0)
	attrs := vsym.U32("attrs")
	payload := vsym.Bytes("payload", vsymC06Payload)
	payload = payload[:vsym.Concrete(len(payload), 1<<17)]
	signer := vsym.Signer("k1")
	serial := vsym.BytesN("serial", 2)
	vsym.Assume(serial[0] != 0)
	if vsymC06RawLen > 0 {
		vsym.CertRawLen(vsymC06RawLen) // a long certificate: the SignedData then exceeds 64 KiB
	}
	cert := vsym.Cert(signer, serial)
	raw, issuer := cert.Raw, cert.RawIssuer
	v := efivar.Efivar{Name: string(name), GUID: &guid, Attributes: attributes.Attributes(attrs)}

	t0 := time.Now().UTC()
	_, m, err := SignEFIVariable(v, vPayload(payload), signer, cert)
	t1 := time.Now().UTC()
	vsym.Assert(err == nil, "signing succeeds")
	out := m.Bytes()
	vsym.Assert(len(out) >= 40, "output holds the descriptor header")

	// 1. timestamp: current time in UTC; pad, nanosecond, timezone, daylight zero
	ts := out[:16]
	match := func(t time.Time) bool {
		return vsym.And(vU16(ts, 0) == uint16(t.Year()), ts[2] == uint8(t.Month()), ts[3] == uint8(t.Day()),
			ts[4] == uint8(t.Hour()), ts[5] == uint8(t.Minute()), ts[6] == uint8(t.Second()))
	}
	vsym.Assert(vsym.Or(match(t0), match(t1)), "timestamp is the current time in UTC")
	zero := true
	for i := 7; i < 16; i++ {
		zero = vsym.And(zero, ts[i] == 0)
	}
	vsym.Assert(zero, "pad, nanosecond, timezone and daylight fields are zero")

	// 2. the signed buffer and the reference SignedData
	var nameUTF16 []byte
	for _, c := range name {
		nameUTF16 = append(nameUTF16, c, 0)
	}
	g := []byte{byte(guid.Data1), byte(guid.Data1 >> 8), byte(guid.Data1 >> 16), byte(guid.Data1 >> 24),
		byte(guid.Data2), byte(guid.Data2 >> 8), byte(guid.Data3), byte(guid.Data3 >> 8)}
	g = append(g, guid.Data4[:]...)
	signedBuf := vCat(nameUTF16, g, []byte{byte(attrs), byte(attrs >> 8), byte(attrs >> 16), byte(attrs >> 24)}, ts, payload)
	// 3. whole layout (the signing-time attribute is the clock when signing started; natively the
	// wall clock may have moved between the harness's reading and the library's: accept either)
	pk7 := util.EFIGUID{Data1: 0x4aafd29d, Data2: 0x68df, Data3: 0x49ee, Data4: [8]uint8{0x8a, 0xa9, 0x34, 0x7d, 0x37, 0x56, 0x65, 0xa7}}
	layout := func(t time.Time) []byte {
		sd := vRefDetachedSignedData(signedBuf, raw, issuer, serial, t, signer)
		dw := 24 + len(sd)
		return vCat(ts, []byte{byte(dw), byte(dw >> 8), byte(dw >> 16), byte(dw >> 24), 0x00, 0x02, 0xf1, 0x0e},
			[]byte{byte(pk7.Data1), byte(pk7.Data1 >> 8), byte(pk7.Data1 >> 16), byte(pk7.Data1 >> 24), byte(pk7.Data2), byte(pk7.Data2 >> 8), byte(pk7.Data3), byte(pk7.Data3 >> 8)},
			pk7.Data4[:], sd, payload)
	}
	want0 := layout(t0)
	if !vsym.Symbolic() && !bytes.Equal(out, want0) {
		want0 = layout(t1)
	}
	vsym.AssertBytesEq(out, want0, "update is timestamp || WIN_CERTIFICATE_UEFI_GUID || bare detached SignedData over name||GUID||attrs||timestamp||payload || payload")
	vsym.Reach("end")
}
