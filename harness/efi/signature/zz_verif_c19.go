package signature

import (
	"bytes"

	"github.com/foxboron/go-uefi/internal/vsym"
)

// VC19_DatabaseReadOnly: encoders and membership queries on one database, repeated in both orders.
func VC19_DatabaseReadOnly() {
	db, _ := vPreState()
	t, owner, data, _ := vOpArgs(false)
	vsym.Begin(db)
	vsym.Concurrent(
		func() { db.Bytes() },
		func() { var m bytes.Buffer; db.Marshal(&m) },
		func() { db.BytesExists(t, owner, data) },
		func() { db.SigDataExists(t, &SignatureData{Owner: owner, Data: data}) },
		func() {
			if len(*db) > 0 {
				db.Exists(t, (*db)[0])
			}
		},
	)
	b1 := db.Bytes()
	var m1 bytes.Buffer
	db.Marshal(&m1)
	x1 := db.BytesExists(t, owner, data)
	s1 := db.SigDataExists(t, &SignatureData{Owner: owner, Data: data})
	var l1 bool
	if len(*db) > 0 {
		l1 = db.Exists(t, (*db)[0])
	}
	// second round, other order
	var l2 bool
	if len(*db) > 0 {
		l2 = db.Exists(t, (*db)[0])
	}
	s2 := db.SigDataExists(t, &SignatureData{Owner: owner, Data: data})
	x2 := db.BytesExists(t, owner, data)
	var m2 bytes.Buffer
	db.Marshal(&m2)
	b2 := db.Bytes()
	vsym.AssertBytesEq(b2, b1, "Bytes is repeatable")
	vsym.AssertBytesEq(m1.Bytes(), b1, "Marshal writes the bytes of Bytes")
	vsym.AssertBytesEq(m2.Bytes(), b1, "Marshal is repeatable")
	vsym.Assert(x1 == x2, "BytesExists is repeatable")
	vsym.Assert(s1 == s2, "SigDataExists is repeatable")
	vsym.Assert(l1 == l2, "Exists is repeatable")
	vsym.AssertReadOnly("database operations")
	vsym.Reach("end")
}

var vsymC19Len = 48

// VC19_SignedUpdateReadOnly: the marshallable returned for a signed update (descriptor || payload
// held in a buffer) can be marshalled any number of times.
func VC19_SignedUpdateReadOnly() {
	content := vsym.Bytes("content", vsymC19Len)
	var e efibytes
	(*bytes.Buffer)(&e).Write(content)
	vsym.Begin(&e)
	vsym.Concurrent(func() { e.Bytes() }, func() { var m bytes.Buffer; e.Marshal(&m) })
	b1 := e.Bytes()
	var m1 bytes.Buffer
	e.Marshal(&m1)
	var m2 bytes.Buffer
	e.Marshal(&m2)
	b2 := e.Bytes()
	vsym.AssertBytesEq(b1, content, "Bytes returns the content")
	vsym.AssertBytesEq(b2, content, "Bytes is repeatable")
	vsym.AssertBytesEq(m1.Bytes(), content, "Marshal writes the content")
	vsym.AssertBytesEq(m2.Bytes(), content, "Marshal is repeatable")
	vsym.AssertReadOnly("signed-update value operations")
	vsym.Reach("end")
}

// VC19_DescriptorReadOnly: Marshal of a decoded authentication descriptor is repeatable.
func VC19_DescriptorReadOnly() {
	in := vsym.Bytes("in", vsymC19Len)
	in = in[:vsym.Concrete(len(in), 1<<12)]
	d, err := ReadEFIVariableAuthencation2(bytes.NewReader(in))
	if err != nil {
		return
	}
	vsym.Begin(d)
	vsym.Concurrent(func() { var m bytes.Buffer; d.Marshal(&m) })
	var m1, m2 bytes.Buffer
	d.Marshal(&m1)
	d.Marshal(&m2)
	vsym.AssertBytesEq(m2.Bytes(), m1.Bytes(), "descriptor Marshal is repeatable")
	vsym.AssertReadOnly("descriptor operations")
	vsym.Reach("end")
}
