package attributes

import (
	"os"

	"github.com/foxboron/go-uefi/efi/fs"
	"github.com/foxboron/go-uefi/efi/util"
	"github.com/foxboron/go-uefi/internal/vsym"
)

var vsymC11Name = 4
var vsymC11Value = 64

func vLower(n byte) byte { return vsym.IteU8(n < 10, '0'+n, 'a'+n-10) }

func vGUIDLower(g util.EFIGUID) []byte {
	be := []byte{byte(g.Data1 >> 24), byte(g.Data1 >> 16), byte(g.Data1 >> 8), byte(g.Data1),
		byte(g.Data2 >> 8), byte(g.Data2), byte(g.Data3 >> 8), byte(g.Data3)}
	be = append(be, g.Data4[:]...)
	var out []byte
	for i, b := range be {
		if i == 4 || i == 6 || i == 8 || i == 10 {
			out = append(out, '-')
		}
		out = append(out, vLower(b>>4), vLower(b&15))
	}
	return out
}

// VC11_LegacyWriteRead: the package-level API (efi/attributes over efi/fs).  The immutable-flag
// probe (an ioctl on the real file) is an OS stub: any flag word or any error.
func VC11_LegacyWriteRead() {
	rec := &vFS{}
	fs.SetFS(rec)
	g := util.EFIGUID{Data1: vsym.U32("g.d1"), Data2: vsym.U16("g.d2"), Data3: vsym.U16("g.d3")}
	copy(g.Data4[:], vsym.BytesN("g.d4", 8))
	name := vsym.BytesN("name", vsymC11Name)
	for _, c := range name {
		vsym.Assume(vsym.Or(vsym.And(c >= 'a', c <= 'z'), vsym.And(c >= 'A', c <= 'Z'), vsym.And(c >= '0', c <= '9')))
	}
	attrs := Attributes(vsym.U32("attrs"))
	val := vsym.Bytes("value", vsymC11Value)
	wantPath := append([]byte(Efivars+"/"), name...)
	wantPath = append(wantPath, '-')
	wantPath = append(wantPath, vGUIDLower(g)...)

	err := WriteEfivarsWithGuid(string(name), attrs, val, g)
	if err != nil {
		// the immutable-flag probe may fail; then nothing may have been written
		vsym.Assert(len(rec.trace) == 0, "an error before the write leaves the file system untouched")
		vsym.Reach("probe-error")
		return
	}
	var ops []vOp
	for _, o := range rec.trace {
		if o.op != "Close" {
			ops = append(ops, o)
		}
	}
	vsym.Assert(len(ops) == 2, "exactly one open and one write, nothing else")
	vsym.Assert(ops[0].op == "OpenFile", "the file is opened with OpenFile")
	vsym.AssertBytesEq([]byte(ops[0].path), wantPath, "path is <efivars>/<Name>-<lower-case GUID>")
	wantFlags := os.O_WRONLY | os.O_CREATE
	wantFlags = vsym.IteInt(attrs&EFI_VARIABLE_APPEND_WRITE != 0, wantFlags|os.O_APPEND, wantFlags)
	vsym.Assert(ops[0].flag == wantFlags, "write-only, create, append iff APPEND_WRITE")
	a := uint32(attrs)
	vsym.AssertBytesEq(ops[1].buf, append([]byte{byte(a), byte(a >> 8), byte(a >> 16), byte(a >> 24)}, val...), "buffer is attributes LE32 followed by the value")

	// read back through the legacy reader
	rec2 := &vFS{exists: true, content: ops[1].buf}
	fs.SetFS(rec2)
	gotAttrs, buf, rerr := ReadEfivarsWithGuid(string(name), g)
	vsym.Assert(rerr == nil, "legacy read succeeds")
	vsym.Assert(gotAttrs == attrs, "stored attributes are returned")
	vsym.AssertBytesEq(buf.Bytes(), val, "the value is the bytes after the first four")
	vsym.AssertBytesEq([]byte(rec2.trace[0].path), wantPath, "the same file is read")
	vsym.Reach("end")
}

// VC11_LegacySequence: the open mode of a write depends on that write's attributes only, not on
// writes made earlier in the process (two writes with independent symbolic attribute masks).
func VC11_LegacySequence() {
	rec := &vFS{}
	fs.SetFS(rec)
	g := util.EFIGUID{Data1: vsym.U32("g.d1"), Data2: vsym.U16("g.d2"), Data3: vsym.U16("g.d3")}
	a1, a2 := Attributes(vsym.U32("attrs1")), Attributes(vsym.U32("attrs2"))
	v1, v2 := vsym.BytesN("value1", 3), vsym.BytesN("value2", 2)
	if WriteEfivarsWithGuid("Aa", a1, v1, g) != nil || WriteEfivarsWithGuid("Bb", a2, v2, g) != nil {
		vsym.Reach("probe-error")
		return
	}
	var ops []vOp
	for _, o := range rec.trace {
		if o.op != "Close" {
			ops = append(ops, o)
		}
	}
	vsym.Assert(len(ops) == 4, "one open and one write per variable write")
	for i, a := range []Attributes{a1, a2} {
		wantFlags := os.O_WRONLY | os.O_CREATE
		wantFlags = vsym.IteInt(a&EFI_VARIABLE_APPEND_WRITE != 0, wantFlags|os.O_APPEND, wantFlags)
		vsym.Assert(ops[2*i].op == "OpenFile", "the file is opened with OpenFile")
		vsym.Assert(ops[2*i].flag == wantFlags, "write-only, create, append iff this write's APPEND_WRITE")
	}
	u := uint32(a2)
	vsym.AssertBytesEq(ops[3].buf, append([]byte{byte(u), byte(u >> 8), byte(u >> 16), byte(u >> 24)}, v2...), "second buffer is its attributes followed by its value")
	vsym.Reach("end")
}

// VC11_LegacyNamed: the name-based package-level wrappers choose the vendor GUID by the variable
// name: the image security databases db, dbx, dbt, dbr live under the image-security GUID, every
// other variable (PK, KEK, the *Default copies, boot variables) under the global GUID.
func VC11_LegacyNamed() {
	names := []string{"PK", "KEK", "db", "dbx", "dbt", "dbr", "dbDefault", "dbxDefault", "dbtDefault", "dbrDefault", "PKDefault", "KEKDefault", "SetupMode", "SecureBoot", "BootOrder", "d", "dbb"}
	name := names[vsym.Pick("name", len(names))]
	// EFI_GLOBAL_VARIABLE and EFI_IMAGE_SECURITY_DATABASE_GUID, from the UEFI specification
	g := util.EFIGUID{Data1: 0x8BE4DF61, Data2: 0x93CA, Data3: 0x11d2, Data4: [8]uint8{0xAA, 0x0D, 0x00, 0xE0, 0x98, 0x03, 0x2B, 0x8C}}
	if name == "db" || name == "dbx" || name == "dbt" || name == "dbr" {
		g = util.EFIGUID{Data1: 0xd719b2cb, Data2: 0x3d3a, Data3: 0x4596, Data4: [8]uint8{0xa3, 0xbc, 0xda, 0xd0, 0x0e, 0x67, 0x65, 0x6f}}
	}
	wantPath := append([]byte(Efivars+"/"+name+"-"), vGUIDLower(g)...)
	rec := &vFS{}
	fs.SetFS(rec)
	val := vsym.BytesN("value", 3)
	if WriteEfivars(name, Attributes(vsym.U32("attrs")), val) == nil {
		for _, o := range rec.trace {
			if o.op == "OpenFile" {
				vsym.AssertBytesEq([]byte(o.path), wantPath, "write: the file is <efivars>/<Name>-<vendor GUID of that name>")
			}
		}
	}
	rec2 := &vFS{exists: true, content: append([]byte{7, 0, 0, 0}, val...)}
	fs.SetFS(rec2)
	_, _, rerr := ReadEfivars(name)
	vsym.Assert(rerr == nil, "legacy read by name succeeds")
	vsym.AssertBytesEq([]byte(rec2.trace[0].path), wantPath, "read: the file is <efivars>/<Name>-<vendor GUID of that name>")
	vsym.Reach("end")
}
