package attributes

import (
	"github.com/foxboron/go-uefi/efi/fs"
	"github.com/foxboron/go-uefi/efi/util"
	"github.com/foxboron/go-uefi/internal/vsym"
)

var vsymC15Value = 16

// VC15_LegacyWriteFaults: the package-level writer (efi/attributes over efi/fs): any failed open,
// write or close, and any short write, is reported as an error.
func VC15_LegacyWriteFaults() {
	rec := &vFS{faults: true}
	fs.SetFS(rec)
	g := util.EFIGUID{Data1: vsym.U32("g.d1")}
	val := vsym.Bytes("value", vsymC15Value)
	err := WriteEfivarsWithGuid("Aa", Attributes(vsym.U32("attrs")), val, g)
	if rec.nfault > 0 {
		vsym.Assert(err != nil, "a failed open, write or close (or a short write) is reported as an error")
		vsym.Reach("faulted")
	} else if err == nil {
		vsym.Reach("clean")
	}
	vsym.Reach("end")
}

// VC15_LegacyReadFaults: the package-level reader: a failed open, stat or read is an error.
func VC15_LegacyReadFaults() {
	rec := &vFS{faults: true, exists: true}
	rec.content = vsym.Bytes("file", vsymC15Value)
	fs.SetFS(rec)
	g := util.EFIGUID{Data1: vsym.U32("g.d1")}
	_, buf, err := ReadEfivarsWithGuid("Aa", g)
	if rec.nfault > rec.nclose {
		vsym.Assert(err != nil, "a failed open, stat or read is reported as an error")
		vsym.Assert(buf == nil, "no value is returned after a failed read")
		vsym.Reach("faulted")
	}
	vsym.Reach("end")
}

// VC15_LegacyShortReads: the same for the package-level reader.
func VC15_LegacyShortReads() {
	rec := &vFS{exists: true, shortReads: true}
	rec.content = vsym.Bytes("file", 12)
	rec.content = rec.content[:vsym.Concrete(len(rec.content), 64)]
	vsym.Assume(len(rec.content) >= 4)
	fs.SetFS(rec)
	g := util.EFIGUID{Data1: vsym.U32("g.d1")}
	attrs, buf, err := ReadEfivarsWithGuid("Aa", g)
	if err == nil {
		c := rec.content
		vsym.Assert(uint32(attrs) == uint32(c[0])|uint32(c[1])<<8|uint32(c[2])<<16|uint32(c[3])<<24, "the stored attributes are returned")
		vsym.AssertBytesEq(buf.Bytes(), c[4:], "the value returned is the stored value, however the reads were split")
		vsym.Reach("ok")
	}
	if rec.nshort > 0 {
		vsym.Reach("short")
	}
	vsym.Reach("end")
}
