package authenticode

import (
	"bytes"
	"crypto"
	"io"

	"github.com/foxboron/go-uefi/internal/vsym"
)

type vRecSigner struct {
	crypto.Signer
	failed bool
}

func (s *vRecSigner) Sign(r io.Reader, digest []byte, opts crypto.SignerOpts) ([]byte, error) {
	sig, err := s.Signer.Sign(r, digest, opts)
	if err != nil {
		s.failed = true
	}
	return sig, err
}

// vFaultyReaderAt fails (symbolically) at any ReadAt call.
type vFaultyReaderAt struct {
	r      *bytes.Reader
	nfault int
}

func (f *vFaultyReaderAt) ReadAt(p []byte, off int64) (int, error) {
	if vsym.Bool("fault.readat") {
		f.nfault++
		// a failing ReaderAt may deliver some bytes together with its error (io.ReaderAt contract)
		if len(p) > 1 && vsym.Bool("fault.readat.partial") {
			k := vsym.Int("fault.readat.n")
			vsym.Assume(vsym.And(k >= 1, k < len(p)))
			n, _ := f.r.ReadAt(p[:k], off)
			return n, io.ErrClosedPipe
		}
		return 0, io.ErrClosedPipe
	}
	return f.r.ReadAt(p, off)
}

// VC15_ImageSignFault: on the shipped unsigned test image (concrete), a failing signer makes Sign
// return an error and leaves the image object without a new signature.
func VC15_ImageSignFault() {
	vsym.EnableFaults()
	img := vsym.Fixture("authenticode/testdata/test.pecoff")
	p, err := Parse(bytes.NewReader(img))
	vsym.Assert(err == nil, "fixture parses")
	before := p.Bytes()
	sigs0, _ := p.Signatures()
	signer := vsym.Signer("k1")
	serial := vsym.BytesN("serial", 2)
	vsym.Assume(serial[0] != 0)
	cert := vsym.Cert(signer, serial)
	rs := &vRecSigner{Signer: signer}
	sig, serr := p.Sign(rs, cert)
	sigs1, _ := p.Signatures()
	if rs.failed {
		vsym.Assert(serr != nil, "a failed signer is reported as an error")
		vsym.Assert(sig == nil, "no signature is returned alongside the error")
		vsym.Assert(len(sigs1) == len(sigs0), "a failed signing leaves the image object without a new signature")
		vsym.AssertBytesEq(p.Bytes(), before, "and its serialisation unchanged")
		vsym.Reach("signer-failed")
	} else {
		vsym.Assert(serr == nil, "signing succeeds when the signer does")
		vsym.Assert(len(sigs1) == len(sigs0)+1, "exactly one signature is added")
		vsym.Reach("signed")
	}
	vsym.Reach("end")
}

// VC15_ImageReaderFault: the image reader fails at any ReadAt call during Parse: Parse returns an
// error (never a parsed object) and the process keeps running.
func VC15_ImageReaderFault() {
	img := vsym.Fixture("authenticode/testdata/test.pecoff")
	fr := &vFaultyReaderAt{r: bytes.NewReader(img)}
	p, err := Parse(fr)
	if fr.nfault > 0 {
		vsym.Assert(err != nil, "a failed read during parsing is reported as an error")
		vsym.Assert(p == nil, "no parsed image is returned alongside the error")
		vsym.Reach("faulted")
	} else {
		vsym.Assert(err == nil, "no fault, no error")
		vsym.Reach("clean")
	}
	vsym.Reach("end")
}

// vArmedReaderAt fails (symbolically) at any ReadAt call once armed.
type vArmedReaderAt struct {
	r      *bytes.Reader
	armed  bool
	nfault int
}

func (f *vArmedReaderAt) ReadAt(p []byte, off int64) (int, error) {
	if f.armed && vsym.Bool("fault.readat") {
		f.nfault++
		return 0, io.ErrClosedPipe
	}
	return f.r.ReadAt(p, off)
}

// VC15_VerifyReaderFault: an image carrying two signatures (the second one by the verifying key);
// the image reader may fail at any ReadAt call Verify and Hash issue: success is never reported,
// and Hash returns no digest.
func VC15_VerifyReaderFault() {
	img := vsym.Fixture("authenticode/testdata/test.pecoff")
	k1, k2 := vsym.Signer("k1"), vsym.Signer("k2")
	s1, s2 := vsym.BytesN("serial1", 2), vsym.BytesN("serial2", 2)
	vsym.Assume(vsym.And(s1[0] != 0, s2[0] != 0))
	cert1, cert2 := vsym.Cert(k1, s1), vsym.Cert(k2, s2)
	p, err := Parse(bytes.NewReader(img))
	vsym.Assert(err == nil, "fixture parses")
	_, e1 := p.Sign(k1, cert1)
	_, e2 := p.Sign(k2, cert2)
	vsym.Assert(e1 == nil && e2 == nil, "signing succeeds")
	fr := &vArmedReaderAt{r: bytes.NewReader(p.Bytes())}
	q, err := Parse(fr)
	vsym.Assert(err == nil, "doubly signed image parses")
	fr.armed = true
	ok, verr := q.Verify(cert2)
	if fr.nfault > 0 {
		vsym.Assert(!ok, "success is never reported when the image reader failed")
		vsym.Assert(verr != nil, "a reader failure during verification is reported as an error")
		vsym.Reach("verify-faulted")
	} else {
		vsym.Assert(ok, "without faults the second signer verifies")
		vsym.Reach("verify-clean")
	}
	n0 := fr.nfault
	d := q.Hash(crypto.SHA256)
	if fr.nfault > n0 {
		vsym.Assert(d == nil, "no digest is returned when the image reader failed")
		vsym.Reach("hash-faulted")
	}
	vsym.Reach("end")
}
