package authenticode

import (
	"bytes"
	"crypto"
	"io"

	"github.com/foxboron/go-uefi/internal/vsym"
)

var vsymC19Signed = 1 // 1: a signature is appended before the read-only calls

// VC19_ImageReadOnly: every read-only operation on a parsed image, twice and interleaved, returns
// identical results; and (sufficient condition for race freedom) stores nothing into the object
// graph that existed before the calls.
func VC19_ImageReadOnly() {
	v := vWellFormedImage(false)
	r := bytes.NewReader(v.img)
	p, err := Parse(r)
	vsym.Assert(err == nil, "well-formed image is parsed")
	if vsymC19Signed == 1 {
		// fixed-length signatures keep the certificate-table walk of Signatures() concrete
		vsym.Assert(p.AppendSignature(vsym.BytesN("sig0", 5)) == nil, "append")
		vsym.Assert(p.AppendSignature(vsym.BytesN("sig1", 8)) == nil, "append")
	}
	vsym.Begin(p, r)
	// race-detector replays (only when the executor found a store into shared state): the operations
	// run concurrently on the object as parsed, before anything else has touched it
	vsym.Concurrent(
		func() { p.Hash(crypto.SHA256) },
		func() { p.Bytes() },
		func() { p.Signatures() },
		func() { io.ReadAll(p.Open()) },
	)
	h1 := p.Hash(crypto.SHA256)
	b1 := p.Bytes()
	s1, e1 := p.Signatures()
	o1, _ := io.ReadAll(p.Open())
	// second round, other order
	o2, _ := io.ReadAll(p.Open())
	s2, e2 := p.Signatures()
	b2 := p.Bytes()
	h2 := p.Hash(crypto.SHA256)
	vsym.AssertBytesEq(h2, h1, "Hash is repeatable")
	vsym.AssertBytesEq(b2, b1, "Bytes is repeatable")
	vsym.AssertBytesEq(o1, b1, "Open yields the bytes of Bytes")
	vsym.AssertBytesEq(o2, b1, "Open is repeatable")
	vsym.Assert((e1 == nil) == (e2 == nil), "Signatures is repeatable (error)")
	vsym.Assert(len(s1) == len(s2), "Signatures is repeatable (count)")
	for i := range s1 {
		if i < len(s2) {
			vsym.Assert(s1[i].Length == s2[i].Length, "Signatures is repeatable (entry length)")
			vsym.AssertBytesEq(s1[i].Certificate, s2[i].Certificate, "Signatures is repeatable (entry bytes)")
		}
	}
	// interleaved use: a partly drained reader, then other read-only calls, then the rest
	r1 := p.Open()
	head := make([]byte, 100)
	io.ReadFull(r1, head)
	b3 := p.Bytes()
	o3, _ := io.ReadAll(p.Open())
	tail, _ := io.ReadAll(r1)
	vsym.AssertBytesEq(b3, b1, "Bytes is unaffected by a partly drained Open reader")
	vsym.AssertBytesEq(o3, b1, "a second Open reader is independent of a partly drained one")
	vsym.AssertBytesEq(append(head, tail...), b1, "a partly drained Open reader is unaffected by other read-only calls")
	vsym.AssertReadOnly("image operations")
	vsym.Reach("end")
}
