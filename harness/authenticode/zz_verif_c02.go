package authenticode

import (
	"bytes"
	"crypto"

	"github.com/foxboron/go-uefi/internal/vsym"
)

var vsymC02Stride = 64 // blob/header positions are sampled with this stride (1 = every position)
var vsymC02Regions = 3 // 3: section/trailing bytes, embedded digest, SignerInfo; 4: also sampled header bytes

// VC02_SignedImage: the shipped unsigned test image (concrete), signed by the library under the
// signature model.  Completeness (verifies against the signer, also after a second signature), and
// soundness against: another key (also under the same issuer and serial), every change of a covered
// image byte (position and value symbolic), and changes inside the signature blob (embedded digest,
// attributes, signer identity, signature; positions enumerated, value symbolic).
func VC02_SignedImage() {
	img := vsym.Fixture("authenticode/testdata/test.pecoff")
	k1, k2, k3 := vsym.Signer("k1"), vsym.Signer("k2"), vsym.Signer("k3")
	s1 := vsym.BytesN("serial1", 2)
	vsym.Assume(s1[0] != 0)
	cert1 := vsym.Cert(k1, s1)
	cert2 := vsym.CertSameID(k2, cert1) // other key, same issuer and serial
	s3 := vsym.BytesN("serial3", 2)
	vsym.Assume(s3[0] != 0)
	cert3 := vsym.Cert(k3, s3)

	p, err := Parse(bytes.NewReader(img))
	vsym.Assert(err == nil, "fixture parses")
	digest := p.Hash(crypto.SHA256)
	blob, err := p.Sign(k1, cert1)
	vsym.Assert(err == nil, "signing succeeds")
	signed := p.Bytes()
	q, err := Parse(bytes.NewReader(signed))
	vsym.Assert(err == nil, "signed image parses")
	ok, _ := q.Verify(cert1)
	vsym.Assert(ok, "the signed image verifies against the signer's certificate")
	ok2, _ := q.Verify(cert2)
	vsym.Assert(!ok2, "another key under the same issuer and serial does not verify")
	ok3, _ := q.Verify(cert3)
	vsym.Assert(!ok3, "an unrelated certificate does not verify")
	vsym.Reach("complete")

	tableOff := len(signed) - (len(blob) + 8 + (8-(len(blob)+8)%8)%8)
	blobOff := tableOff + 8
	mut := append([]byte{}, signed...)
	var pos int
	e := int(uint32(img[0x3c]) | uint32(img[0x3d])<<8)
	ck := e + 24 + 64
	dd4 := ck - 64 + 144
	sh := int(uint32(img[e+24+60]) | uint32(img[e+24+61])<<8 | uint32(img[e+24+62])<<16)
	region := vsym.Pick("region", vsymC02Regions)
	switch region {
	case 0: // a covered byte after the headers (section data, trailing data): position symbolic, in windows
		// (the last window of the fixture is its COFF symbol/string table: debug/pe walks it with the
		// mutated values, which is expensive; it is included only when vsymC02Regions == 4)
		nw := (tableOff - sh + 511) / 512
		if vsymC02Regions < 4 {
			nw--
		}
		w := vsym.Pick("window", nw)
		pos = vsym.Int("pos")
		vsym.Assume(vsym.And(pos >= sh+512*w, pos < sh+512*(w+1), pos < tableOff))
	case 3: // a covered header byte (not checksum, not the directory entry): positions sampled, value symbolic
		pos = vsym.Pick("hdr.pos", sh/vsymC02Stride) * vsymC02Stride
		if (pos >= ck && pos < ck+4) || (pos >= dd4 && pos < dd4+8) {
			pos = dd4 + 8
		}
	case 1: // the embedded image digest inside the blob
		i := 0
		for i+32 <= len(blob)-300 && !bytes.Equal(blob[i:i+32], digest) {
			i++
		}
		vsym.Assert(i+32 <= len(blob)-300, "the blob embeds the image digest")
		pos = blobOff + i + vsym.Pick("digest.byte", 32)
	case 2: // identity (issuer, serial), signed attributes and signature inside the SignerInfo: positions sampled
		idOff, idLen, attrOff, attrLen, sigOff, sigLen := vSignerInfoRegions(blob)
		switch vsym.Pick("si.part", 3) {
		case 0:
			pos = blobOff + idOff + vsym.Pick("id.pos", idLen)
		case 1:
			pos = blobOff + attrOff + vsym.Pick("attr.pos", (attrLen+vsymC02Stride/8-1)/(vsymC02Stride/8))*(vsymC02Stride/8)
		case 2:
			pos = blobOff + sigOff + vsym.Pick("sig.pos", (sigLen+vsymC02Stride-1)/vsymC02Stride)*vsymC02Stride
		}
	}
	v := vsym.U8("value")
	vsym.Assume(v != signed[pos])
	mut[pos] = v
	if region == 0 && vsym.Bool("forge") {
		// the composed forgery: after changing a covered byte, the adversary rewrites the embedded image
		// digest to that of the changed image, and may relabel the SignerInfo digest algorithm (all
		// unsigned parts of the blob); only the signed messageDigest attribute stands in the way
		if fm, ferr := Parse(bytes.NewReader(mut)); ferr == nil {
			nd := fm.Hash(crypto.SHA256)
			i := 0
			for i+32 <= len(blob)-300 && !bytes.Equal(blob[i:i+32], digest) {
				i++
			}
			copy(mut[blobOff+i:blobOff+i+32], nd)
			if vsym.Bool("relabel.digest.alg") {
				vSignerInfoRegions(blob)
				mut[blobOff+vDigestAlgOff+12] = 0x02
			}
		}
	}
	qm, perr := Parse(bytes.NewReader(mut))
	if perr != nil {
		vsym.Reach("mutant-rejected-by-parser")
		return
	}
	okm, _ := qm.Verify(cert1)
	vsym.Assert(!okm, "a signed image with one changed covered or signed byte does not verify")
	vsym.Reach("end")
}

// vDigestAlgOff is set by vSignerInfoRegions: offset of the SignerInfo's digestAlgorithm SEQUENCE.
var vDigestAlgOff int

// vSignerInfoRegions locates, inside a SignedData blob produced by the library (ContentInfo ->
// SignedData -> ... -> SET OF SignerInfo), the issuerAndSerialNumber, the [0] signed attributes and
// the encryptedDigest contents.  Offsets are relative to the blob.
func vSignerInfoRegions(blob []byte) (idOff, idLen, attrOff, attrLen, sigOff, sigLen int) {
	// hdr returns (header length, content length) of the DER element at off
	hdr := func(off int) (int, int) {
		l := int(blob[off+1])
		if l < 0x80 {
			return 2, l
		}
		n := l & 0x7f
		v := 0
		for i := 0; i < n; i++ {
			v = v<<8 | int(blob[off+2+i])
		}
		return 2 + n, v
	}
	skip := func(off int) int { h, l := hdr(off); return off + h + l }
	into := func(off int) int { h, _ := hdr(off); return off + h }
	off := into(0)  // ContentInfo SEQUENCE
	off = skip(off) // contentType OID
	off = into(off) // [0]
	off = into(off) // SignedData SEQUENCE
	off = skip(off) // version
	off = skip(off) // digestAlgorithms
	off = skip(off) // contentInfo
	off = skip(off) // certificates [0]
	off = into(off) // signerInfos SET
	off = into(off) // SignerInfo SEQUENCE
	off = skip(off) // version
	idOff = off
	_, l := hdr(off)
	h, _ := hdr(off)
	idLen = h + l
	off = skip(off) // issuerAndSerialNumber
	vDigestAlgOff = off
	off = skip(off) // digestAlgorithm
	h, l = hdr(off)
	attrOff, attrLen = off+h, l
	off = skip(off) // [0] attributes
	off = skip(off) // digestEncryptionAlgorithm
	h, l = hdr(off)
	sigOff, sigLen = off+h, l
	return
}
