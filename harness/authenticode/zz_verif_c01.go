package authenticode

import (
	"bytes"
	"crypto"
	"crypto/sha256"

	"github.com/foxboron/go-uefi/internal/vsym"
)

// Shape parameters (set by the check per tier).
var (
	vsymC01Nsec     = 1       // number of section headers
	vsymC01Plus     = 1       // 1: PE32+, 0: PE32
	vsymC01Lfanew   = 0x80    // e_lfanew (case-split by the registry)
	vsymC01MaxLen   = 1 << 24 // image length bound
	vsymC01NoCert   = 0       // 1: no certificate table (quick tier for two sections)
	vsymC01NonEmpty = 0       // 1: every section has raw data (quick tier for two sections)
)

func v16(b []byte, o int) uint16 { return uint16(b[o]) | uint16(b[o+1])<<8 }
func v32(b []byte, o int) uint32 {
	return uint32(b[o]) | uint32(b[o+1])<<8 | uint32(b[o+2])<<16 | uint32(b[o+3])<<24
}

type vSec struct{ ptr, size int }

type vImg struct {
	img              []byte
	opt, ck, dd4     int
	sectab, nsec     int
	sh               int // SizeOfHeaders
	secs             []vSec
	certVA, certSize int
}

// vHdrEnd is the end of the section table for the shape given by the parameters.
func vHdrEnd() int {
	optSize := 96 + 128
	if vsymC01Plus == 1 {
		optSize = 112 + 128
	}
	return vsymC01Lfanew + 24 + optSize + 40*vsymC01Nsec
}

// vWF is the well-formedness predicate of DESIGN.md C01 over the raw bytes of an image of the shape
// given by the parameters (len(img) >= vHdrEnd() must already be known).  It returns the condition
// and the header fields the specification's hash depends on.  No branching: usable both as an
// assumption (C01) and as an assertion about a produced file (C03).
func vWF(img []byte) (*vImg, bool) {
	L := len(img)
	e := vsymC01Lfanew
	opt := e + 24
	optSize := 96 + 128
	dd4 := opt + 128
	nrvaOff := opt + 92
	magic := uint16(0x10b)
	if vsymC01Plus == 1 {
		optSize = 112 + 128
		dd4 = opt + 144
		nrvaOff = opt + 108
		magic = 0x20b
	}
	sectab := opt + optSize
	nsec := vsymC01Nsec
	hdrEnd := sectab + 40*nsec
	sh := int(v32(img, opt+60))
	certVA, certSize := int(v32(img, dd4)), int(v32(img, dd4+4))
	noCert := vsym.And(certVA == 0, certSize == 0)
	bodyEnd := L - certSize
	ok := vsym.And(
		img[0] == 'M', img[1] == 'Z', v32(img, 0x3c) == uint32(e),
		img[e] == 'P', img[e+1] == 'E', img[e+2] == 0, img[e+3] == 0,
		v16(img, e+4) == 0x8664,                  // Machine
		v16(img, e+6) == uint16(nsec),            // NumberOfSections
		v32(img, e+12) == 0, v32(img, e+16) == 0, // no COFF symbol table
		v16(img, e+20) == uint16(optSize), // SizeOfOptionalHeader
		v16(img, opt) == magic,
		v32(img, nrvaOff) == 16,
		sh >= hdrEnd, sh <= L,
		vsym.Or(noCert, vsym.And(certSize > 0, certVA >= sh, certVA+certSize == L, certVA%8 == 0, certSize%8 == 0)),
	)
	if vsymC01NoCert == 1 {
		ok = vsym.And(ok, noCert)
	}
	v := &vImg{img: img, opt: opt, ck: opt + 64, dd4: dd4, sectab: sectab, nsec: nsec, sh: sh, certVA: certVA, certSize: certSize}
	for i := 0; i < nsec; i++ {
		h := sectab + 40*i
		ptr, size := int(v32(img, h+20)), int(v32(img, h+16))
		ok = vsym.And(ok, img[h] != '/', v16(img, h+32) == 0) // no string-table names, no relocations
		if vsymC01NonEmpty == 1 {
			ok = vsym.And(ok, size != 0)
		}
		ok = vsym.And(ok, vsym.Implies(size != 0, vsym.And(ptr >= sh, ptr+size <= bodyEnd)))
		for _, o := range v.secs {
			ok = vsym.And(ok, vsym.Implies(vsym.And(size != 0, o.size != 0), vsym.Or(ptr+size <= o.ptr, o.ptr+o.size <= ptr)))
		}
		v.secs = append(v.secs, vSec{ptr, size})
	}
	return v, ok
}

// vWellFormedImage returns a symbolic image restricted to the well-formed EFI-style PE images of
// the shape given by the parameters.  Every header field that the hash depends on, every section
// offset/size, the certificate directory and the file length are symbolic; e_lfanew, the section
// count, PE32/PE32+ and NumberOfRvaAndSizes=16 are the shape.
func vWellFormedImage(gapFree bool) *vImg {
	img := vsym.Bytes("img", vsymC01MaxLen)
	vsym.Assume(len(img) >= vHdrEnd())
	v, ok := vWF(img)
	vsym.Assume(ok)
	return v
}

// vSpecStream builds the byte string the Microsoft Authenticode PE hash is computed over
// (steps 3-14 of the specification), applied to the image zero-padded to 8 bytes.
func vSpecStream(v *vImg) []byte {
	img := v.img
	ref := append([]byte{}, img[0:v.ck]...) // 3: up to the checksum
	ref = append(ref, img[v.ck+4:v.dd4]...) // 4-5: skip checksum, up to the certificate table entry
	ref = append(ref, img[v.dd4+8:v.sh]...) // 6-7: skip the entry, rest of the headers
	sum := v.sh                             // 8
	secs := append([]vSec{}, v.secs...)     // 9
	for i := 1; i < len(secs); i++ {        // 10: ascending PointerToRawData
		for j := i; j > 0 && secs[j].ptr < secs[j-1].ptr; j-- {
			secs[j], secs[j-1] = secs[j-1], secs[j]
		}
	}
	for _, s := range secs { // 11-13
		if s.size == 0 {
			continue
		}
		ref = append(ref, img[s.ptr:s.ptr+s.size]...)
		sum += s.size
	}
	L := len(img)
	Lp := (L + 7) &^ 7
	padded := append(append([]byte{}, img...), make([]byte, Lp-L)...)
	if Lp > sum+v.certSize { // 14
		ref = append(ref, padded[sum:Lp-v.certSize]...)
	}
	return ref
}

// VC01_DigestEqualsSpec: the library's digest equals SHA-256 of the specification's byte string.
func VC01_DigestEqualsSpec() {
	v := vWellFormedImage(false)
	vsym.Reach("wellformed")
	p, err := Parse(bytes.NewReader(v.img))
	vsym.Assert(err == nil, "well-formed image is parsed")
	vsym.Reach("parsed")
	got := p.Hash(crypto.SHA256)
	want := sha256.Sum256(vSpecStream(v))
	vsym.AssertBytesEq(got, want[:], "digest equals the Authenticode PE hash of the specification")
	vsym.Reach("end")
}

var vsymC01Parts = 2

// VC01_MultiReadAt: the positional reader over concatenated ranges satisfies the io.ReaderAt
// contract for every offset and request length (parts non-empty except possibly the last, which is
// how Parse builds it).  This is what makes reading the hashed stream in one piece (the executor's
// model of io.Copy) equivalent to the chunked reads of the real io.Copy.
func VC01_MultiReadAt() {
	names := []string{"part0", "part1", "part2", "part3"}
	k := vsymC01Parts
	var parts []SizeReaderAt
	var all []byte
	for i := 0; i < k; i++ {
		b := vsym.Bytes(names[i], 1<<20)
		if i < k-1 {
			vsym.Assume(len(b) > 0)
		}
		parts = append(parts, sectionReaderFromBytes(b))
		all = append(all, b...)
	}
	m := newMultiReaderAt(parts...)
	vsym.Assert(m.Size() == int64(len(all)), "Size is the sum of the parts")
	off := vsym.Int("off")
	n := vsym.Int("n")
	vsym.Assume(vsym.And(off >= 0, off <= 1<<23, n >= 0, n <= 1<<22))
	p := make([]byte, n)
	got, err := m.ReadAt(p, int64(off))
	avail := vsym.IteInt(off < len(all), len(all)-off, 0)
	want := vsym.IteInt(n < avail, n, avail)
	vsym.Assert(got == want, "n = min(len(p), size-off)")
	vsym.Assert((err == nil) == (got == n), "err is nil exactly when the buffer was filled")
	if got > 0 {
		vsym.AssertBytesEq(p[:got], all[off:off+got], "bytes are those of the concatenation at off")
	}
	vsym.Reach("end")
}

// VC01_Coverage (on the shipped test image, unsigned and with a certificate table appended):
// changing one byte changes the digest if the position is covered (section data: position symbolic
// per 512-byte window) and does not change it if the position is excluded (each byte of the
// checksum field; sampled bytes of the certificate table).  Decided through the hash model: outputs are equal iff the hashed strings are equal.
func VC01_Coverage() {
	img := append([]byte{}, vsym.Fixture("authenticode/testdata/test.pecoff")...)
	signedVariant := vsym.Pick("with.table", 2) == 1
	if signedVariant {
		p0, err := Parse(bytes.NewReader(img))
		vsym.Assert(err == nil, "fixture parses")
		vsym.Assert(p0.AppendSignature(vsym.BytesN("sig", 40)) == nil, "append")
		img = p0.Bytes()
	}
	e := int(uint32(img[0x3c]) | uint32(img[0x3d])<<8)
	ck := e + 24 + 64
	sh := 1024
	bodyEnd := 3825
	p, err := Parse(bytes.NewReader(img))
	vsym.Assert(err == nil, "image parses")
	before := p.Hash(crypto.SHA256)

	mut := append([]byte{}, img...)
	var pos int
	covered := true
	switch vsym.Pick("class", 4) {
	case 0: // section data
		w := vsym.Pick("window", 5)
		pos = vsym.Int("pos")
		vsym.Assume(vsym.And(pos >= sh+512*w, pos < sh+512*(w+1)))
	case 1: // checksum field
		pos = ck + vsym.Pick("ck.byte", 4)
		covered = false
	case 2:
		// (the directory entry is skipped by the hash but determines which bytes form the table, so a
		// single-byte change of it leaves the well-formed images; its exclusion is decided by
		// VC01_DigestEqualsSpec where the entry is symbolic)
		return
	case 3: // certificate table
		if !signedVariant {
			return
		}
		tl := len(img) - ((bodyEnd + 7) &^ 7)
		pos = ((bodyEnd + 7) &^ 7) + vsym.Pick("table.byte", tl/4)*4
		covered = false
	}
	v := vsym.U8("value")
	vsym.Assume(v != img[pos])
	mut[pos] = v
	q, err := Parse(bytes.NewReader(mut))
	vsym.Assert(err == nil, "changed image parses")
	after := q.Hash(crypto.SHA256)
	same := bytes.Equal(before, after)
	if covered {
		vsym.Assert(!same, "changing a covered byte changes the digest")
		vsym.Reach("covered")
	} else {
		vsym.Assert(same, "changing only an excluded byte does not change the digest")
		vsym.Reach("excluded")
	}
	vsym.Reach("end")
}

// VC01_DigestIgnoresHistory: the digest is a function of the image bytes alone: it is the same
// before and after the process has parsed, listed and re-serialised another (signed) image whose
// certificate-table alignment bytes are arbitrary.
func VC01_DigestIgnoresHistory() {
	b := vsym.Fixture("authenticode/testdata/test.pecoff") // 3825 bytes: not a multiple of 8
	p0, err := Parse(bytes.NewReader(b))
	vsym.Assert(err == nil, "fixture parses")
	d0 := p0.Hash(crypto.SHA256)
	// another image: the fixture with a 5-byte signature (dwLength 13, three alignment bytes)
	pa, _ := Parse(bytes.NewReader(b))
	vsym.Assert(pa.AppendSignature(vsym.BytesN("sig", 5)) == nil, "append")
	a := pa.Bytes()
	copy(a[len(a)-3:], vsym.BytesN("alignment", 3))
	qa, err := Parse(bytes.NewReader(a))
	vsym.Assert(err == nil, "the signed image parses")
	qa.Signatures()
	_ = qa.Bytes()
	_ = qa.Hash(crypto.SHA256)
	p1, err := Parse(bytes.NewReader(b))
	vsym.Assert(err == nil, "fixture parses again")
	vsym.AssertBytesEq(p1.Hash(crypto.SHA256), d0, "the digest of an image does not depend on images handled earlier")
	vsym.AssertBytesEq(p0.Hash(crypto.SHA256), d0, "nor does the digest of an object parsed earlier")
	vsym.Reach("end")
}
