package authenticode

import (
	"bytes"
	"crypto"

	"github.com/foxboron/go-uefi/internal/vsym"
)

// Obligations on every path (built into the executor): no panic, no log.Fatal/os.Exit, every
// allocation at most 8*len + 16 MiB (library code may make bounded allocations such as relocation tables of up to 65535 entries), termination within the unwinding bounds.

type vField struct {
	off, width int
}

// vC13Fields lists header fields of the shipped test image (PE32+) that steer offset arithmetic;
// each is replaced, one at a time, by a symbolic value.
func vC13Fields(img []byte) []vField {
	e := int(uint32(img[0x3c]) | uint32(img[0x3d])<<8)
	opt := e + 24
	sectab := opt + 240
	f := []vField{
		{0x3c, 4},      // e_lfanew
		{e + 6, 2},     // NumberOfSections
		{e + 8 + 4, 4}, // PointerToSymbolTable
		{e + 8 + 8, 4}, // NumberOfSymbols
		{e + 20, 2},    // SizeOfOptionalHeader
		{opt, 2},       // Magic
		{opt + 60, 4},  // SizeOfHeaders
		{opt + 108, 4}, // NumberOfRvaAndSizes
		{opt + 144, 4}, // certificate table address
		{opt + 148, 4}, // certificate table size
	}
	for i := 0; i < 2; i++ {
		h := sectab + 40*i
		f = append(f, vField{h + 16, 4}, vField{h + 20, 4}, vField{h + 24, 4}, vField{h + 32, 2}) // SizeOfRawData, PointerToRawData, PointerToRelocations, NumberOfRelocations
	}
	return f
}

func vC13Exercise(img []byte, limit int) {
	vsym.AllocBound(8*limit + 1<<24)
	vsym.MustTerminate()
	p, err := Parse(bytes.NewReader(img))
	if err != nil {
		vsym.Reach("rejected")
		return
	}
	vsym.Reach("parsed")
	_ = p.Hash(crypto.SHA256)
	_ = p.Bytes()
	p.Signatures()
	vsym.Reach("end")
}

var vsymC13Field = -1 // -1: all fields (forked); -2: all but fields 0 and 2; else only this field index

// VC13_HeaderFields: one header field of the test image at a time takes every value.
func VC13_HeaderFields() {
	img := append([]byte{}, vsym.Fixture("authenticode/testdata/test.pecoff")...)
	fields := vC13Fields(img)
	k := vsymC13Field
	if k == -2 {
		// every field except e_lfanew (0) and PointerToSymbolTable (2): those two have long, solver-heavy
		// paths and are run as harness instances of their own
		k = 1 + vsym.Pick("field", len(fields)-2)
		if k >= 2 {
			k++
		}
	} else if k < 0 {
		k = vsym.Pick("field", len(fields))
	}
	f := fields[k]
	v := vsym.U32("value")
	for i := 0; i < f.width; i++ {
		img[f.off+i] = byte(v >> (8 * i))
	}
	vC13Exercise(img, len(img))
}

var vsymC13Table = 24

// VC13_CertificateTable: Signatures() on a fully symbolic certificate table.
func VC13_CertificateTable() {
	t := vsym.Bytes("table", vsymC13Table)
	t = t[:vsym.Concrete(len(t), 1<<12)]
	vsym.AllocBound(8*len(t) + 4096)
	vsym.MustTerminate()
	p := &PECOFFBinary{certTable: bytes.NewBuffer(t)}
	p.Signatures()
	vsym.Reach("end")
}
