package authenticode

import (
	"bytes"
	"crypto"

	"github.com/foxboron/go-uefi/internal/vsym"
)

var vsymC03MaxSig = 1 << 16

func vLE32(x int) []byte { return []byte{byte(x), byte(x >> 8), byte(x >> 16), byte(x >> 24)} }

// VC03_AppendLayout: appending a signature of any length to any well-formed image (with or
// without an existing certificate table) yields exactly the specified file.
func VC03_AppendLayout() {
	v := vWellFormedImage(false)
	img := v.img
	sig := vsym.Bytes("sig", vsymC03MaxSig)
	p, err := Parse(bytes.NewReader(img))
	vsym.Assert(err == nil, "well-formed image is parsed")
	vsym.Reach("parsed")
	aerr := p.AppendSignature(sig)
	vsym.Assert(aerr == nil, "appending succeeds")
	out := p.Bytes()

	L := len(img)
	Lp := (L + 7) &^ 7
	bodyEnd := L - v.certSize
	dwLength := 8 + len(sig)
	entryPad := (8 - dwLength%8) % 8
	newVA := vsym.IteInt(v.certSize != 0, v.certVA, Lp)
	newSize := v.certSize + dwLength + entryPad

	want := append([]byte{}, img[:v.dd4]...)    // every byte before the directory entry
	want = append(want, vLE32(newVA)...)         // the entry spans the table exactly
	want = append(want, vLE32(newSize)...)
	want = append(want, img[v.dd4+8:bodyEnd]...) // every byte after it, up to the old end of the body
	want = append(want, make([]byte, Lp-L)...)   // zero padding to 8
	want = append(want, img[bodyEnd:]...)        // the old table, untouched
	want = append(want, vLE32(dwLength)...)      // new WIN_CERTIFICATE: dwLength
	want = append(want, 0x00, 0x02, 0x02, 0x00)  // revision 0x0200, type 0x0002
	want = append(want, sig...)
	want = append(want, make([]byte, entryPad)...) // entry padded to 8
	vsym.AssertBytesEq(out, want, "signed file has the specified layout")
	vsym.Assert(len(out)%8 == 0, "signed file length is a multiple of 8")
	vsym.Assert(newVA+newSize == len(out), "directory entry spans the table to end of file")
	vsym.Assert(newVA%8 == 0, "certificate table is 8-byte aligned")

	vsym.Reach("end")
}

var vsymC03Appends = 2

// VC03_AppendTwice: in-memory history without re-parsing: k signatures appended to one object.
func VC03_AppendTwice() {
	v := vWellFormedImage(false)
	img := v.img
	p, err := Parse(bytes.NewReader(img))
	vsym.Assert(err == nil, "well-formed image is parsed")
	names := []string{"sig0", "sig1", "sig2"}
	L := len(img)
	Lp := (L + 7) &^ 7
	bodyEnd := L - v.certSize
	var table []byte
	table = append(table, img[bodyEnd:]...)
	for i := 0; i < vsymC03Appends; i++ {
		sig := vsym.Bytes(names[i], vsymC03MaxSig)
		vsym.Assert(p.AppendSignature(sig) == nil, "appending succeeds")
		dwLength := 8 + len(sig)
		table = append(table, vLE32(dwLength)...)
		table = append(table, 0x00, 0x02, 0x02, 0x00)
		table = append(table, sig...)
		table = append(table, make([]byte, (8-dwLength%8)%8)...)
	}
	out := p.Bytes()
	newVA := vsym.IteInt(v.certSize != 0, v.certVA, Lp)
	want := append([]byte{}, img[:v.dd4]...)
	want = append(want, vLE32(newVA)...)
	want = append(want, vLE32(len(table))...)
	want = append(want, img[v.dd4+8:bodyEnd]...)
	want = append(want, make([]byte, Lp-L)...)
	want = append(want, table...)
	vsym.AssertBytesEq(out, want, "file after several appends has the specified layout")
	vsym.Assert(newVA+len(table) == len(out), "directory entry spans the table to end of file")
	vsym.Reach("end")
}

// VC03_ReparseDigest: serialise, re-parse: the digest is the one reported before signing, and the
// output is again a well-formed image whose certificate table is the one written.
func VC03_ReparseDigest() {
	v := vWellFormedImage(false)
	img := v.img
	sig := vsym.Bytes("sig", vsymC03MaxSig)
	p, err := Parse(bytes.NewReader(img))
	vsym.Assert(err == nil, "well-formed image is parsed")
	before := p.Hash(crypto.SHA256)
	vsym.Assert(p.AppendSignature(sig) == nil, "appending succeeds")
	after := p.Hash(crypto.SHA256)
	vsym.AssertBytesEq(after, before, "appending a signature does not change the digest of the object")
	out := p.Bytes()
	q, err2 := Parse(bytes.NewReader(out))
	vsym.Assert(err2 == nil, "the signed file parses")
	vsym.Reach("reparsed")
	again := q.Hash(crypto.SHA256)
	vsym.AssertBytesEq(again, before, "re-parsing the signed file reports the digest from before signing")
	vsym.Reach("end")
}

// vSignedLayout is the specified signed file for (image, signature): see VC03_AppendLayout, which
// shows that the library produces exactly this byte string.
func vSignedLayout(v *vImg, sig []byte) []byte {
	img := v.img
	L := len(img)
	Lp := (L + 7) &^ 7
	bodyEnd := L - v.certSize
	dwLength := 8 + len(sig)
	entryPad := (8 - dwLength%8) % 8
	newVA := vsym.IteInt(v.certSize != 0, v.certVA, Lp)
	newSize := v.certSize + dwLength + entryPad
	want := append([]byte{}, img[:v.dd4]...)
	want = append(want, vLE32(newVA)...)
	want = append(want, vLE32(newSize)...)
	want = append(want, img[v.dd4+8:bodyEnd]...)
	want = append(want, make([]byte, Lp-L)...)
	want = append(want, img[bodyEnd:]...)
	want = append(want, vLE32(dwLength)...)
	want = append(want, 0x00, 0x02, 0x02, 0x00)
	want = append(want, sig...)
	want = append(want, make([]byte, entryPad)...)
	return want
}

// VC03_SignedIsWellFormed (specification-level lemma, no library code): the specified signed file
// of a well-formed image is a well-formed image of the same shape, and the specification's hashed
// byte string is unchanged.  With VC03_AppendLayout (library output = specified file) and C01
// (library digest = specification digest on every well-formed image) this gives: re-parsing a
// signed file reports the digest from before signing, for signing histories of any length.
func VC03_SignedIsWellFormed() {
	v := vWellFormedImage(false)
	sig := vsym.Bytes("sig", vsymC03MaxSig)
	out := vSignedLayout(v, sig)
	vsym.Assert(len(out) >= vHdrEnd(), "output holds the headers")
	w, wf := vWF(out)
	vsym.Assert(wf, "signed file is a well-formed image again")
	vsym.AssertBytesEq(vSpecStream(w), vSpecStream(v), "signing does not change the specification digest")
	vsym.Reach("end")
}
