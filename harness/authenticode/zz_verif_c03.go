package authenticode

import (
	"bytes"
	"crypto"

	"github.com/foxboron/go-uefi/internal/vsym"
)

var vsymC03MaxSig = 1 << 16

func vLE32(x int) []byte { return []byte{byte(x), byte(x >> 8), byte(x >> 16), byte(x >> 24)} }

// VC03_AppendLayout: appending a signature of any length to any well-formed image (with or
// without an existing certificate table) yields exactly the specified file.
func VC03_AppendLayout() {
	v := vWellFormedImage(false)
	img := v.img
	sig := vsym.Bytes("sig", vsymC03MaxSig)
	p, err := Parse(bytes.NewReader(img))
	vsym.Assert(err == nil, "well-formed image is parsed")
	vsym.Reach("parsed")
	aerr := p.AppendSignature(sig)
	vsym.Assert(aerr == nil, "appending succeeds")
	out := p.Bytes()

	L := len(img)
	Lp := (L + 7) &^ 7
	bodyEnd := L - v.certSize
	dwLength := 8 + len(sig)
	entryPad := (8 - dwLength%8) % 8
	newVA := vsym.IteInt(v.certSize != 0, v.certVA, Lp)
	newSize := v.certSize + dwLength + entryPad

	want := append([]byte{}, img[:v.dd4]...) // every byte before the directory entry
	want = append(want, vLE32(newVA)...)     // the entry spans the table exactly
	want = append(want, vLE32(newSize)...)
	want = append(want, img[v.dd4+8:bodyEnd]...) // every byte after it, up to the old end of the body
	want = append(want, make([]byte, Lp-L)...)   // zero padding to 8
	want = append(want, img[bodyEnd:]...)        // the old table, untouched
	want = append(want, vLE32(dwLength)...)      // new WIN_CERTIFICATE: dwLength
	want = append(want, 0x00, 0x02, 0x02, 0x00)  // revision 0x0200, type 0x0002
	want = append(want, sig...)
	want = append(want, make([]byte, entryPad)...) // entry padded to 8
	vsym.AssertBytesEq(out, want, "signed file has the specified layout")
	vsym.Assert(len(out)%8 == 0, "signed file length is a multiple of 8")
	vsym.Assert(newVA+newSize == len(out), "directory entry spans the table to end of file")
	vsym.Assert(newVA%8 == 0, "certificate table is 8-byte aligned")

	vsym.Reach("end")
}

var vsymC03Appends = 2

// VC03_AppendTwice: in-memory history without re-parsing: k signatures appended to one object.
func VC03_AppendTwice() {
	v := vWellFormedImage(false)
	img := v.img
	p, err := Parse(bytes.NewReader(img))
	vsym.Assert(err == nil, "well-formed image is parsed")
	names := []string{"sig0", "sig1", "sig2"}
	L := len(img)
	Lp := (L + 7) &^ 7
	bodyEnd := L - v.certSize
	var table []byte
	table = append(table, img[bodyEnd:]...)
	for i := 0; i < vsymC03Appends; i++ {
		sig := vsym.Bytes(names[i], vsymC03MaxSig)
		vsym.Assert(p.AppendSignature(sig) == nil, "appending succeeds")
		dwLength := 8 + len(sig)
		table = append(table, vLE32(dwLength)...)
		table = append(table, 0x00, 0x02, 0x02, 0x00)
		table = append(table, sig...)
		table = append(table, make([]byte, (8-dwLength%8)%8)...)
	}
	out := p.Bytes()
	newVA := vsym.IteInt(v.certSize != 0, v.certVA, Lp)
	want := append([]byte{}, img[:v.dd4]...)
	want = append(want, vLE32(newVA)...)
	want = append(want, vLE32(len(table))...)
	want = append(want, img[v.dd4+8:bodyEnd]...)
	want = append(want, make([]byte, Lp-L)...)
	want = append(want, table...)
	vsym.AssertBytesEq(out, want, "file after several appends has the specified layout")
	vsym.Assert(newVA+len(table) == len(out), "directory entry spans the table to end of file")
	vsym.Reach("end")
}

// VC03_ReparseDigest: serialise, re-parse: the digest is the one reported before signing, and the
// output is again a well-formed image whose certificate table is the one written.
func VC03_ReparseDigest() {
	v := vWellFormedImage(false)
	img := v.img
	sig := vsym.Bytes("sig", vsymC03MaxSig)
	p, err := Parse(bytes.NewReader(img))
	vsym.Assert(err == nil, "well-formed image is parsed")
	before := p.Hash(crypto.SHA256)
	vsym.Assert(p.AppendSignature(sig) == nil, "appending succeeds")
	after := p.Hash(crypto.SHA256)
	vsym.AssertBytesEq(after, before, "appending a signature does not change the digest of the object")
	out := p.Bytes()
	q, err2 := Parse(bytes.NewReader(out))
	vsym.Assert(err2 == nil, "the signed file parses")
	vsym.Reach("reparsed")
	again := q.Hash(crypto.SHA256)
	vsym.AssertBytesEq(again, before, "re-parsing the signed file reports the digest from before signing")
	vsym.Reach("end")
}

// vSignedLayout is the specified signed file for (image, signature): see VC03_AppendLayout, which
// shows that the library produces exactly this byte string.
func vSignedLayout(v *vImg, sig []byte) []byte {
	img := v.img
	L := len(img)
	Lp := (L + 7) &^ 7
	bodyEnd := L - v.certSize
	dwLength := 8 + len(sig)
	entryPad := (8 - dwLength%8) % 8
	newVA := vsym.IteInt(v.certSize != 0, v.certVA, Lp)
	newSize := v.certSize + dwLength + entryPad
	want := append([]byte{}, img[:v.dd4]...)
	want = append(want, vLE32(newVA)...)
	want = append(want, vLE32(newSize)...)
	want = append(want, img[v.dd4+8:bodyEnd]...)
	want = append(want, make([]byte, Lp-L)...)
	want = append(want, img[bodyEnd:]...)
	want = append(want, vLE32(dwLength)...)
	want = append(want, 0x00, 0x02, 0x02, 0x00)
	want = append(want, sig...)
	want = append(want, make([]byte, entryPad)...)
	return want
}

// VC03_SignedIsWellFormed (specification-level lemma, no library code): the specified signed file
// of a well-formed image is a well-formed image of the same shape, and the specification's hashed
// byte string is unchanged.  With VC03_AppendLayout (library output = specified file) and C01
// (library digest = specification digest on every well-formed image) this gives: re-parsing a
// signed file reports the digest from before signing, for signing histories of any length.
func VC03_SignedIsWellFormed() {
	v := vWellFormedImage(false)
	sig := vsym.Bytes("sig", vsymC03MaxSig)
	out := vSignedLayout(v, sig)
	vsym.Assert(len(out) >= vHdrEnd(), "output holds the headers")
	w, wf := vWF(out)
	vsym.Assert(wf, "signed file is a well-formed image again")
	vsym.AssertBytesEq(vSpecStream(w), vSpecStream(v), "signing does not change the specification digest")
	vsym.Reach("end")
}

// VC03_SignVerify (shipped test image, signature model): after signing, serialising and re-parsing,
// the image verifies against every certificate that signed it — also after a further signature is
// appended — and against no certificate that did not; re-parsing reports the digest from before
// signing; each signature embeds that digest.
func VC03_SignVerify() {
	img := vsym.Fixture("authenticode/testdata/test.pecoff")
	k1, k2, k3 := vsym.Signer("k1"), vsym.Signer("k2"), vsym.Signer("k3")
	s1, s2, s3 := vsym.BytesN("serial1", 2), vsym.BytesN("serial2", 2), vsym.BytesN("serial3", 2)
	vsym.Assume(vsym.And(s1[0] != 0, s2[0] != 0, s3[0] != 0))
	c1, c2, c3 := vsym.Cert(k1, s1), vsym.Cert(k2, s2), vsym.Cert(k3, s3)
	p, err := Parse(bytes.NewReader(img))
	vsym.Assert(err == nil, "fixture parses")
	d0 := p.Hash(crypto.SHA256)
	blob1, err := p.Sign(k1, c1)
	vsym.Assert(err == nil, "first signing succeeds")
	q, err := Parse(bytes.NewReader(p.Bytes()))
	vsym.Assert(err == nil, "signed image parses")
	vsym.AssertBytesEq(q.Hash(crypto.SHA256), d0, "re-parsing reports the digest from before signing")
	ok1, _ := q.Verify(c1)
	ok2, _ := q.Verify(c2)
	vsym.Assert(ok1, "verifies against the certificate that signed it")
	vsym.Assert(!ok2, "does not verify against a certificate that did not sign it")
	a1, aerr := ParseAuthenticode(blob1)
	vsym.Assert(aerr == nil, "the signature parses as Authenticode")
	vsym.AssertBytesEq(a1.Digest, d0, "the signature embeds the image digest")
	// a further signature by another key, on the re-parsed image
	_, err = q.Sign(k2, c2)
	vsym.Assert(err == nil, "second signing succeeds")
	r, err := Parse(bytes.NewReader(q.Bytes()))
	vsym.Assert(err == nil, "doubly signed image parses")
	vsym.AssertBytesEq(r.Hash(crypto.SHA256), d0, "the digest is still the one from before signing")
	o1, _ := r.Verify(c1)
	o2, _ := r.Verify(c2)
	o3, _ := r.Verify(c3)
	vsym.Assert(o1 && o2, "verifies against both signers after a further signature")
	vsym.Assert(!o3, "and against no certificate that did not sign")
	sigs, _ := r.Signatures()
	vsym.Assert(len(sigs) == 2, "two WIN_CERTIFICATE entries")
	vsym.Reach("end")
}
