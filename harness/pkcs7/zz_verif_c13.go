package pkcs7

import (
	"github.com/foxboron/go-uefi/internal/vsym"
)

var vsymC13Max = 14
var vsymC13Stride = 16

// VC13_SmallDER: ParsePKCS7 (and Verify, if it parses) on a fully symbolic byte string.
// Obligations: no panic, no exit, bounded allocation, termination.
func VC13_SmallDER() {
	in := vsym.Bytes("in", vsymC13Max)
	in = in[:vsym.Concrete(len(in), 1<<12)]
	vsym.AllocBound(8*len(in) + 65536)
	vsym.MustTerminate()
	p, err := ParsePKCS7(in)
	if err == nil {
		signer := vsym.Signer("k1")
		cert := vsym.Cert(signer, []byte{1, 2})
		p.Verify(cert)
		p.HasCertificate(cert)
		vsym.Reach("parsed")
	}
	vsym.Reach("end")
}

// VC13_BlobByte: a library-produced SignedData in which one byte (position sampled, every tag, length
// and value byte in thorough) takes every value: ParsePKCS7 and Verify end in a value or an error.
func VC13_BlobByte() {
	signer := vsym.Signer("k1")
	cert := vsym.Cert(signer, []byte{1, 2})
	blob, err := SignPKCS7(signer, cert, vOIDs[1].oid, []byte{1, 2, 3, 4})
	vsym.Assert(err == nil, "signing works")
	n := len(blob)
	pos := vsym.Pick("pos", (n+vsymC13Stride-1)/vsymC13Stride) * vsymC13Stride
	mut := append([]byte{}, blob...)
	mut[pos] = vsym.U8("value")
	vsym.AllocBound(8*n + 65536)
	vsym.MustTerminate()
	p, perr := ParsePKCS7(mut)
	if perr == nil {
		p.Verify(cert)
		vsym.Reach("parsed")
	}
	vsym.Reach("end")
}

// VC13_NoAttributes: a SignerInfo without signed attributes (optional in RFC 2315) must not crash.
func VC13_NoAttributes() {
	signer := vsym.Signer("k1")
	cert := vsym.Cert(signer, []byte{1, 2})
	p := &PKCS7{OID: OIDData, SignerInfo: []*signerinfo{{
		IssuerAndSerialnumber: &issuerAndSerialNumber{RawIssuer: cert.RawIssuer, SerialNumber: cert.SerialNumber},
		EncryptedDigest:       vsym.BytesN("sig", 256),
	}}}
	if vsym.Bool("attached") {
		p.ContentInfo = append([]byte{0x04, 4}, vsym.BytesN("content", 4)...)
	}
	vsym.MustTerminate()
	ok, _ := p.Verify(cert)
	vsym.Assert(!ok, "a signer entry without signed attributes does not verify")
	vsym.Reach("end")
}
