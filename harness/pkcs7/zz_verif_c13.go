package pkcs7

import (
	"github.com/foxboron/go-uefi/internal/vsym"
)

var vsymC13Max = 14
var vsymC13Stride = 16

// VC13_SmallDER: ParsePKCS7 (and Verify, if it parses) on a fully symbolic byte string.
// Obligations: no panic, no exit, bounded allocation, termination.
func VC13_SmallDER() {
	in := vsym.Bytes("in", vsymC13Max)
	in = in[:vsym.Concrete(len(in), 1<<12)]
	vsym.AllocBound(8*len(in) + 65536)
	vsym.MustTerminate()
	p, err := ParsePKCS7(in)
	if err == nil {
		signer := vsym.Signer("k1")
		cert := vsym.Cert(signer, []byte{1, 2})
		p.Verify(cert)
		p.HasCertificate(cert)
		vsym.Reach("parsed")
	}
	vsym.Reach("end")
}

// VC13_BlobByte: a library-produced SignedData in which one byte (position sampled, every tag, length
// and value byte in thorough) takes every value: ParsePKCS7 and Verify end in a value or an error.
func VC13_BlobByte() {
	signer := vsym.Signer("k1")
	cert := vsym.Cert(signer, []byte{1, 2})
	blob, err := SignPKCS7(signer, cert, vOIDs[1].oid, []byte{1, 2, 3, 4})
	vsym.Assert(err == nil, "signing works")
	n := len(blob)
	pos := vsym.Pick("pos", (n+vsymC13Stride-1)/vsymC13Stride) * vsymC13Stride
	mut := append([]byte{}, blob...)
	mut[pos] = vsym.U8("value")
	vsym.AllocBound(8*n + 65536)
	vsym.MustTerminate()
	p, perr := ParsePKCS7(mut)
	if perr == nil {
		p.Verify(cert)
		vsym.Reach("parsed")
	}
	vsym.Reach("end")
}

// VC13_NoAttributes: a SignerInfo without signed attributes (optional in RFC 2315) must not crash.
func VC13_NoAttributes() {
	signer := vsym.Signer("k1")
	cert := vsym.Cert(signer, []byte{1, 2})
	p := &PKCS7{OID: OIDData, SignerInfo: []*signerinfo{{
		IssuerAndSerialnumber: &issuerAndSerialNumber{RawIssuer: cert.RawIssuer, SerialNumber: cert.SerialNumber},
		EncryptedDigest:       vsym.BytesN("sig", 256),
	}}}
	if vsym.Bool("attached") {
		p.ContentInfo = append([]byte{0x04, 4}, vsym.BytesN("content", 4)...)
	}
	vsym.MustTerminate()
	ok, _ := p.Verify(cert)
	vsym.Assert(!ok, "a signer entry without signed attributes does not verify")
	vsym.Reach("end")
}

// VC13_AttributeShapes: SignedData in DER whose signer entry names the verifying certificate and
// whose signed-attributes field is absent, present but empty, not a set of attributes, or holds an
// attribute with an empty value set: parsing and verification return, and never report success.
func VC13_AttributeShapes() {
	signer := vsym.Signer("k1")
	serial := []byte{1, 2}
	cert := vsym.Cert(signer, serial)
	var attrField []byte
	switch vsym.Pick("attrs.shape", 4) {
	case 1:
		attrField = []byte{0xa0, 0x00}
	case 2:
		attrField = []byte{0xa0, 0x02, 0x05, 0x00}
	case 3:
		attrField = vDER(0xa0, vDER(0x30, vCat(vOIDContentTy, vDER(0x31, nil))))
	}
	algSHA := vDER(0x30, vCat(vOIDSHA256, vNULL))
	ci := vOIDData
	if vsym.Bool("attached") {
		ci = vCat(ci, vDER(0xa0, vDER(0x04, vsym.BytesN("content", 4))))
	}
	si := vDER(0x30, vCat([]byte{0x02, 0x01, 0x01}, vDER(0x30, vCat(cert.RawIssuer, vRefInteger(serial))), algSHA,
		attrField, vDER(0x30, vCat(vOIDRSA, vNULL)), vDER(0x04, vsym.BytesN("sig", 256))))
	blob := vDER(0x30, vCat([]byte{0x02, 0x01, 0x01}, vDER(0x31, algSHA), vDER(0x30, ci), vDER(0xa0, cert.Raw), vDER(0x31, si)))
	vsym.MustTerminate()
	p, err := ParsePKCS7(blob)
	if err != nil {
		vsym.Reach("rejected")
		return
	}
	ok, _ := p.Verify(cert)
	vsym.Assert(!ok, "a signer entry without usable signed attributes does not verify")
	vsym.Reach("end")
}
