package pkcs7

import (
	"bytes"
	"crypto/sha256"
	"crypto/x509"
	"math/big"

	"github.com/foxboron/go-uefi/internal/vsym"
)

var vsymC04Signers = 2

func vBig(b []byte) *big.Int { return new(big.Int).SetBytes(b) }

// vContentOctets: the octets the message digest commits to: the value of the single element that
// the [0] content field holds (RFC 2315 §9.3: the contents octets, without tag and length).
func vContentOctets(ci []byte) ([]byte, bool) {
	if len(ci) < 2 || ci[1] >= 0x80 || int(ci[1]) != len(ci)-2 {
		return nil, false
	}
	return ci[2:], true
}

// VC04_VerifySound (unit level, "drive the unit"): the parsed state is arbitrary: up to two signer
// entries with symbolic issuer, serial, attributes and signature bytes, symbolic encapsulated
// content.  The honest key has signed one attribute set (so a valid signature exists for the
// adversary to reuse).  Verify may report success only if some entry names the certificate,
// carries a signature valid under its key over the entry's attribute SET and, when content is
// encapsulated, its message digest is the SHA-256 of that content.
func VC04_VerifySound() {
	signer := vsym.Signer("k1")
	serial := vsym.BytesN("serial", 2)
	vsym.Assume(serial[0] != 0)
	cert := vsym.Cert(signer, serial)
	issuer := cert.RawIssuer

	// an honest signature exists
	honestContent := vsym.BytesN("honest.content", 4)
	honest, err := SignPKCS7(signer, cert, vOIDs[1].oid, honestContent)
	vsym.Assert(err == nil, "honest signing works")
	hp, err := ParsePKCS7(honest)
	vsym.Assert(err == nil, "honest blob parses")
	okh, _ := hp.Verify(cert)
	vsym.Assert(okh, "honest blob verifies (completeness)")
	vsym.Reach("honest-verifies")

	// the adversary's parsed state
	p := &PKCS7{OID: vOIDs[1].oid}
	withContent := vsym.Bool("has.content")
	var contentOctets []byte
	if withContent {
		contentOctets = vsym.BytesN("content", 4)
		p.ContentInfo = append([]byte{0x30, 4}, contentOctets...)
	}
	n := 1 + vsym.Pick("signers", vsymC04Signers)
	names := []string{"s0", "s1"}
	for i := 0; i < n; i++ {
		si := &signerinfo{
			Version:               1,
			IssuerAndSerialnumber: &issuerAndSerialNumber{RawIssuer: vsym.BytesN(names[i]+".issuer", 3), SerialNumber: vBig(vsym.BytesN(names[i]+".serial", 2))},
			AuthenticatedAttributes: &Attributes{
				ContentType:   vOIDs[vsym.Pick(names[i]+".ctype", 2)].oid,
				MessageDigest: vsym.BytesN(names[i]+".md", 32),
				SigningTime:   hp.SignerInfo[0].AuthenticatedAttributes.SigningTime,
			},
			EncryptedDigest: vsym.BytesN(names[i]+".sig", 256),
		}
		p.SignerInfo = append(p.SignerInfo, si)
	}
	ok, verr := p.Verify(cert)
	if !ok {
		vsym.Reach("rejected")
		return
	}
	vsym.Reach("accepted")
	vsym.Assert(verr == nil, "success comes without an error")
	good := false
	for _, si := range p.SignerInfo {
		id := vsym.And(bytes.Equal(si.IssuerAndSerialnumber.RawIssuer, issuer), si.IssuerAndSerialnumber.SerialNumber.Cmp(cert.SerialNumber) == 0)
		sigOK := cert.CheckSignature(x509.SHA256WithRSA, si.AuthenticatedAttributes.Marshal(), si.EncryptedDigest) == nil
		mdOK := true
		if withContent {
			h := sha256.Sum256(contentOctets)
			mdOK = bytes.Equal(si.AuthenticatedAttributes.MessageDigest, h[:])
		}
		good = vsym.Or(good, vsym.And(id, sigOK, mdOK))
	}
	vsym.Assert(good, "success only for a signer entry naming the certificate, validly signed, whose message digest is the SHA-256 of the encapsulated content")
	vsym.Reach("end")
}
