package pkcs7

import (
	"bytes"
	"crypto"
	"crypto/rand"
	"crypto/sha256"
	"crypto/x509"
	"crypto/x509/pkix"
	encasn1 "encoding/asn1"
	"math/big"
	"time"

	"github.com/foxboron/go-uefi/internal/vsym"
)

var vsymC04Signers = 2

func vBig(b []byte) *big.Int { return new(big.Int).SetBytes(b) }

// vSel selects a or b byte by byte without branching (equal lengths).
func vSel(c bool, a, b []byte) []byte {
	out := make([]byte, len(a))
	for i := range a {
		out[i] = vsym.IteU8(c, a[i], b[i])
	}
	return out
}

// vContentOctets: the octets the message digest commits to: the value of the single element that
// the [0] content field holds (RFC 2315 §9.3: the contents octets, without tag and length).
func vContentOctets(ci []byte) ([]byte, bool) {
	if len(ci) < 2 || ci[1] >= 0x80 || int(ci[1]) != len(ci)-2 {
		return nil, false
	}
	return ci[2:], true
}

// VC04_VerifySound (unit level, "drive the unit"): the parsed state is arbitrary: up to two signer
// entries with symbolic issuer, serial, attributes and signature bytes, symbolic encapsulated
// content.  The honest key has signed one attribute set (so a valid signature exists for the
// adversary to reuse).  Verify may report success only if some entry names the certificate,
// carries a signature valid under its key over the entry's attribute SET and, when content is
// encapsulated, its message digest is the SHA-256 of that content.
func VC04_VerifySound() {
	signer := vsym.Signer("k1")
	serial := vsym.BytesN("serial", 2)
	vsym.Assume(serial[0] != 0)
	cert := vsym.Cert(signer, serial)
	issuer := cert.RawIssuer
	// translator validation: the certificate model's issuer is the DER name the native test CA has
	vsym.AssertBytesEq(issuer[:13], []byte{0x30, 0x12, 0x31, 0x10, 0x30, 0x0e, 0x06, 0x03, 0x55, 0x04, 0x03, 0x0c, 0x07}, "model issuer = native issuer layout")
	vsym.Assert(len(issuer) == 20, "model issuer = native issuer length")

	// an honest signature exists
	honestContent := vsym.BytesN("honest.content", 4)
	honest, err := SignPKCS7(signer, cert, vOIDs[1].oid, honestContent)
	vsym.Assert(err == nil, "honest signing works")
	hp, err := ParsePKCS7(honest)
	vsym.Assert(err == nil, "honest blob parses")
	okh, _ := hp.Verify(cert)
	vsym.Assert(okh, "honest blob verifies (completeness)")
	// the answer depends on the certificate asked about, not on earlier questions to the same object
	cert2 := vsym.CertSameID(vsym.Signer("k2"), cert)
	okOther, _ := hp.Verify(cert2)
	vsym.Assert(!okOther, "after a successful verification, another key under the same issuer and serial still does not verify")
	okAgain, _ := hp.Verify(cert)
	vsym.Assert(okAgain, "verification is repeatable")
	hp2, _ := ParsePKCS7(honest)
	okOther2, _ := hp2.Verify(cert2)
	okAfter, _ := hp2.Verify(cert)
	vsym.Assert(vsym.And(!okOther2, okAfter), "asking about the wrong key first does not change the answer for the right one")
	vsym.Reach("honest-verifies")

	// the adversary's parsed state
	p := &PKCS7{OID: vOIDs[1].oid}
	withContent := vsym.Bool("has.content")
	var contentOctets []byte
	if withContent {
		contentOctets = vsym.BytesN("content", 4)
		p.ContentInfo = append([]byte{0x30, 4}, contentOctets...)
	}
	n := 1 + vsym.Pick("signers", vsymC04Signers)
	names := []string{"s0", "s1", "s2"}
	hsi := hp.SignerInfo[0]
	honestMD := hsi.AuthenticatedAttributes.MessageDigest
	for i := 0; i < n; i++ {
		// every field is either lifted from the honest blob / the certificate or free (explicit
		// choices, so that a counterexample replays with the real key's signature)
		// selections are symbolic (no forks): the solver chooses, the replay reads the same choices
		idOfCert := vsym.Bool(names[i] + ".id.of.cert")
		iss := vSel(idOfCert, issuer, vsym.BytesN(names[i]+".issuer", len(issuer)))
		ser := vSel(idOfCert, serial, vsym.BytesN(names[i]+".serial", 2))
		hc := sha256.Sum256(contentOctets)
		free := vsym.BytesN(names[i]+".md", 32)
		vsym.Assume(vsym.And(!bytes.Equal(free, honestMD), !bytes.Equal(free, hc[:]))) // the two meaningful values are the other choices
		kind := vsym.U8(names[i] + ".md.kind")
		md := vSel(kind == 1, honestMD, vSel(kind == 2, hc[:], free))
		fsig := vsym.BytesN(names[i]+".sig", 256)
		vsym.Assume(!bytes.Equal(fsig, hsi.EncryptedDigest)) // a free signature is not the honest one (that is the other choice)
		sig := vSel(vsym.Bool(names[i]+".sig.honest"), hsi.EncryptedDigest, fsig)
		// the digest algorithm label of the entry is outside the signed attributes: the adversary
		// may relabel it (SHA-256 or SHA-384), as the parser would hand it over
		alg := OIDDigestAlgorithmSHA256
		if vsym.Bool(names[i] + ".alg.relabelled") {
			alg = encasn1.ObjectIdentifier{2, 16, 840, 1, 101, 3, 4, 2, 2}
		}
		si := &signerinfo{
			Version:                  1,
			DigestAlgorithm:          &pkix.AlgorithmIdentifier{Algorithm: alg},
			EncryptedDigestAlgorithm: &pkix.AlgorithmIdentifier{Algorithm: encasn1.ObjectIdentifier{1, 2, 840, 113549, 1, 1, 1}},
			IssuerAndSerialnumber:    &issuerAndSerialNumber{RawIssuer: iss, SerialNumber: vBig(ser)},
			AuthenticatedAttributes: &Attributes{
				ContentType:   vOIDs[1-vsym.Pick(names[i]+".ctype", 2)].oid,
				MessageDigest: md,
				SigningTime:   hsi.AuthenticatedAttributes.SigningTime,
			},
			EncryptedDigest: sig,
		}
		p.SignerInfo = append(p.SignerInfo, si)
	}
	ok, verr := p.Verify(cert)
	if !ok {
		vsym.Reach("rejected")
		return
	}
	vsym.Reach("accepted")
	vsym.Assert(verr == nil, "success comes without an error")
	good := false
	for _, si := range p.SignerInfo {
		id := vsym.And(bytes.Equal(si.IssuerAndSerialnumber.RawIssuer, issuer), si.IssuerAndSerialnumber.SerialNumber.Cmp(cert.SerialNumber) == 0)
		sigOK := cert.CheckSignature(x509.SHA256WithRSA, si.AuthenticatedAttributes.Marshal(), si.EncryptedDigest) == nil
		mdOK := true
		if withContent {
			h := sha256.Sum256(contentOctets)
			mdOK = bytes.Equal(si.AuthenticatedAttributes.MessageDigest, h[:])
		}
		good = vsym.Or(good, vsym.And(id, sigOK, mdOK))
	}
	vsym.Assert(good, "success only for a signer entry naming the certificate, validly signed, whose message digest is the SHA-256 of the encapsulated content")
	vsym.Reach("end")
}

// VC04_AttributeBytes: the signature must be checked over the signed attributes exactly as they
// appear in the blob.  The three standard attributes are signed in one order (any of the 6) and
// placed in the blob in another (any of the 6): verification succeeds iff the orders are the same.
func VC04_AttributeBytes() {
	signer := vsym.Signer("k1")
	serial := vsym.BytesN("serial", 2)
	vsym.Assume(serial[0] != 0)
	cert := vsym.Cert(signer, serial)
	content := vsym.BytesN("content", 4)
	md := sha256.Sum256(content)
	now := time.Now().UTC()
	attr := [][]byte{
		vDER(0x30, vCat(vOIDContentTy, vDER(0x31, vOIDData))),
		vDER(0x30, vCat(vOIDSignTime, vDER(0x31, vDER(0x17, []byte(now.Format("060102150405Z0700")))))),
		vDER(0x30, vCat(vOIDMsgDigest, vDER(0x31, vDER(0x04, md[:])))),
	}
	perms := [][3]int{{0, 1, 2}, {0, 2, 1}, {1, 0, 2}, {1, 2, 0}, {2, 0, 1}, {2, 1, 0}}
	ps, pb := perms[vsym.Pick("signed.order", 6)], perms[vsym.Pick("blob.order", 6)]
	signedInner := vCat(attr[ps[0]], attr[ps[1]], attr[ps[2]])
	blobInner := vCat(attr[pb[0]], attr[pb[1]], attr[pb[2]])
	d := sha256.Sum256(vDER(0x31, signedInner))
	sig, _ := signer.Sign(rand.Reader, d[:], crypto.SHA256)
	algSHA := vDER(0x30, vCat(vOIDSHA256, vNULL))
	si := vDER(0x30, vCat([]byte{0x02, 0x01, 0x01}, vDER(0x30, vCat(cert.RawIssuer, vRefInteger(serial))), algSHA,
		vDER(0xa0, blobInner), vDER(0x30, vCat(vOIDRSA, vNULL)), vDER(0x04, sig)))
	sd := vDER(0x30, vCat([]byte{0x02, 0x01, 0x01}, vDER(0x31, algSHA), vDER(0x30, vCat(vOIDData, vDER(0xa0, vDER(0x04, content)))), vDER(0xa0, cert.Raw), vDER(0x31, si)))
	p, err := ParsePKCS7(sd)
	vsym.Assert(err == nil, "the blob parses")
	ok, _ := p.Verify(cert)
	same := ps == pb
	vsym.Assert(ok == same, "verification succeeds exactly when the attribute bytes in the blob are the bytes that were signed")
	vsym.Reach("end")
}

// VC04_ParsedBlobBinding: a DER blob in the third-party producer language (pkcs7-data with the
// content attached as an OCTET STRING) whose attached content is not the content that was digested
// and signed: parsing may succeed, verification against the signer's certificate must not.
func VC04_ParsedBlobBinding() {
	signer := vsym.Signer("k1")
	serial := vsym.BytesN("serial", 2)
	vsym.Assume(serial[0] != 0)
	cert := vsym.Cert(signer, serial)
	content := vsym.BytesN("content", 4)
	other := vsym.BytesN("other", 4)
	vsym.Assume(!bytes.Equal(content, other))
	outer, nullParams := vsym.Bool("outer"), vsym.Bool("null")
	honest, _ := vThirdPartyBlob(signer, cert.Raw, cert.RawIssuer, serial, content, time.Now().UTC(), nil, nil, outer, nullParams, true)
	hp, err := ParsePKCS7(honest)
	vsym.Assert(err == nil, "the honest blob parses")
	okh, _ := hp.Verify(cert)
	vsym.Assert(okh, "the honest blob with attached content verifies")
	vEmbedded = other
	forged, _ := vThirdPartyBlob(signer, cert.Raw, cert.RawIssuer, serial, content, time.Now().UTC(), nil, nil, outer, nullParams, true)
	vEmbedded = nil
	fp, err := ParsePKCS7(forged)
	if err != nil {
		vsym.Reach("rejected-by-parser")
		return
	}
	okf, _ := fp.Verify(cert)
	vsym.Assert(!okf, "a blob whose attached content is not the signed content does not verify")
	vsym.Reach("end")
}
