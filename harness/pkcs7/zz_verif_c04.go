package pkcs7

import (
	"bytes"
	"crypto/sha256"
	"crypto/x509"
	"math/big"

	"github.com/foxboron/go-uefi/internal/vsym"
)

var vsymC04Signers = 2

func vBig(b []byte) *big.Int { return new(big.Int).SetBytes(b) }

// vSel selects a or b byte by byte without branching (equal lengths).
func vSel(c bool, a, b []byte) []byte {
	out := make([]byte, len(a))
	for i := range a {
		out[i] = vsym.IteU8(c, a[i], b[i])
	}
	return out
}

// vContentOctets: the octets the message digest commits to: the value of the single element that
// the [0] content field holds (RFC 2315 §9.3: the contents octets, without tag and length).
func vContentOctets(ci []byte) ([]byte, bool) {
	if len(ci) < 2 || ci[1] >= 0x80 || int(ci[1]) != len(ci)-2 {
		return nil, false
	}
	return ci[2:], true
}

// VC04_VerifySound (unit level, "drive the unit"): the parsed state is arbitrary: up to two signer
// entries with symbolic issuer, serial, attributes and signature bytes, symbolic encapsulated
// content.  The honest key has signed one attribute set (so a valid signature exists for the
// adversary to reuse).  Verify may report success only if some entry names the certificate,
// carries a signature valid under its key over the entry's attribute SET and, when content is
// encapsulated, its message digest is the SHA-256 of that content.
func VC04_VerifySound() {
	signer := vsym.Signer("k1")
	serial := vsym.BytesN("serial", 2)
	vsym.Assume(serial[0] != 0)
	cert := vsym.Cert(signer, serial)
	issuer := cert.RawIssuer

	// an honest signature exists
	honestContent := vsym.BytesN("honest.content", 4)
	honest, err := SignPKCS7(signer, cert, vOIDs[1].oid, honestContent)
	vsym.Assert(err == nil, "honest signing works")
	hp, err := ParsePKCS7(honest)
	vsym.Assert(err == nil, "honest blob parses")
	okh, _ := hp.Verify(cert)
	vsym.Assert(okh, "honest blob verifies (completeness)")
	vsym.Reach("honest-verifies")

	// the adversary's parsed state
	p := &PKCS7{OID: vOIDs[1].oid}
	withContent := vsym.Bool("has.content")
	var contentOctets []byte
	if withContent {
		contentOctets = vsym.BytesN("content", 4)
		p.ContentInfo = append([]byte{0x30, 4}, contentOctets...)
	}
	n := 1 + vsym.Pick("signers", vsymC04Signers)
	names := []string{"s0", "s1"}
	hsi := hp.SignerInfo[0]
	honestMD := hsi.AuthenticatedAttributes.MessageDigest
	for i := 0; i < n; i++ {
		// every field is either lifted from the honest blob / the certificate or free (explicit
		// choices, so that a counterexample replays with the real key's signature)
		// selections are symbolic (no forks): the solver chooses, the replay reads the same choices
		idOfCert := vsym.Bool(names[i] + ".id.of.cert")
		iss := vSel(idOfCert, issuer, vsym.BytesN(names[i]+".issuer", len(issuer)))
		ser := vSel(idOfCert, serial, vsym.BytesN(names[i]+".serial", 2))
		hc := sha256.Sum256(contentOctets)
		free := vsym.BytesN(names[i]+".md", 32)
		vsym.Assume(vsym.And(!bytes.Equal(free, honestMD), !bytes.Equal(free, hc[:]))) // the two meaningful values are the other choices
		kind := vsym.U8(names[i] + ".md.kind")
		md := vSel(kind == 1, honestMD, vSel(kind == 2, hc[:], free))
		fsig := vsym.BytesN(names[i]+".sig", 256)
		vsym.Assume(!bytes.Equal(fsig, hsi.EncryptedDigest)) // a free signature is not the honest one (that is the other choice)
		sig := vSel(vsym.Bool(names[i]+".sig.honest"), hsi.EncryptedDigest, fsig)
		si := &signerinfo{
			Version:               1,
			IssuerAndSerialnumber: &issuerAndSerialNumber{RawIssuer: iss, SerialNumber: vBig(ser)},
			AuthenticatedAttributes: &Attributes{
				ContentType:   vOIDs[1-vsym.Pick(names[i]+".ctype", 2)].oid,
				MessageDigest: md,
				SigningTime:   hsi.AuthenticatedAttributes.SigningTime,
			},
			EncryptedDigest: sig,
		}
		p.SignerInfo = append(p.SignerInfo, si)
	}
	ok, verr := p.Verify(cert)
	if !ok {
		vsym.Reach("rejected")
		return
	}
	vsym.Reach("accepted")
	vsym.Assert(verr == nil, "success comes without an error")
	good := false
	for _, si := range p.SignerInfo {
		id := vsym.And(bytes.Equal(si.IssuerAndSerialnumber.RawIssuer, issuer), si.IssuerAndSerialnumber.SerialNumber.Cmp(cert.SerialNumber) == 0)
		sigOK := cert.CheckSignature(x509.SHA256WithRSA, si.AuthenticatedAttributes.Marshal(), si.EncryptedDigest) == nil
		mdOK := true
		if withContent {
			h := sha256.Sum256(contentOctets)
			mdOK = bytes.Equal(si.AuthenticatedAttributes.MessageDigest, h[:])
		}
		good = vsym.Or(good, vsym.And(id, sigOK, mdOK))
	}
	vsym.Assert(good, "success only for a signer entry naming the certificate, validly signed, whose message digest is the SHA-256 of the encapsulated content")
	vsym.Reach("end")
}
