package pkcs7

import (
	"bytes"
	"crypto"
	"crypto/rand"
	"crypto/sha256"
	encasn1 "encoding/asn1"
	"time"

	"github.com/foxboron/go-uefi/internal/vsym"
)

var (
	vsymC05Content = 65535 // content length bound
	vsymC05Serial  = 4     // serial magnitude lengths: first n of {1, 20, 2, 8}
	vsymC05RawLens = 3     // certificate sizes tried: first n of {5, 140, 300}
)

// Reference DER (X.690): definite lengths in minimal form.
func vDER(tag byte, content []byte) []byte {
	n := len(content)
	var h []byte
	switch {
	case n < 0x80:
		h = []byte{tag, byte(n)}
	case n <= 0xff:
		h = []byte{tag, 0x81, byte(n)}
	case n <= 0xffff:
		h = []byte{tag, 0x82, byte(n >> 8), byte(n)}
	default:
		h = []byte{tag, 0x83, byte(n >> 16), byte(n >> 8), byte(n)}
	}
	return append(h, content...)
}

func vCat(parts ...[]byte) []byte {
	var out []byte
	for _, p := range parts {
		out = append(out, p...)
	}
	return out
}

var (
	vOIDData       = []byte{0x06, 0x09, 0x2a, 0x86, 0x48, 0x86, 0xf7, 0x0d, 0x01, 0x07, 0x01}
	vOIDSignedData = []byte{0x06, 0x09, 0x2a, 0x86, 0x48, 0x86, 0xf7, 0x0d, 0x01, 0x07, 0x02}
	vOIDSHA256     = []byte{0x06, 0x09, 0x60, 0x86, 0x48, 0x01, 0x65, 0x03, 0x04, 0x02, 0x01}
	vOIDRSA        = []byte{0x06, 0x09, 0x2a, 0x86, 0x48, 0x86, 0xf7, 0x0d, 0x01, 0x01, 0x01}
	vOIDContentTy  = []byte{0x06, 0x09, 0x2a, 0x86, 0x48, 0x86, 0xf7, 0x0d, 0x01, 0x09, 0x03}
	vOIDMsgDigest  = []byte{0x06, 0x09, 0x2a, 0x86, 0x48, 0x86, 0xf7, 0x0d, 0x01, 0x09, 0x04}
	vOIDSignTime   = []byte{0x06, 0x09, 0x2a, 0x86, 0x48, 0x86, 0xf7, 0x0d, 0x01, 0x09, 0x05}
	vOIDSpc        = []byte{0x06, 0x0a, 0x2b, 0x06, 0x01, 0x04, 0x01, 0x82, 0x37, 0x02, 0x01, 0x04}
	vOIDOther      = []byte{0x06, 0x03, 0x2a, 0x03, 0x04} // 1.2.3.4
	vNULL          = []byte{0x05, 0x00}
)

type vOIDChoice struct {
	oid encasn1.ObjectIdentifier
	der []byte
}

var vOIDs = []vOIDChoice{
	{OIDData, vOIDData},
	{encasn1.ObjectIdentifier{1, 3, 6, 1, 4, 1, 311, 2, 1, 4}, vOIDSpc},
	{encasn1.ObjectIdentifier{1, 2, 3, 4}, vOIDOther},
	// a long content type: its attribute encodes longer than the signing-time attribute, so the
	// DER SET OF order of the attributes is not the order content type, signing time, message digest
	{encasn1.ObjectIdentifier{1, 3, 6, 1, 4, 1, 311, 2, 1, 4, 5, 6, 7, 8, 9, 10, 11}, append([]byte{0x06, 0x11}, append(append([]byte{}, vOIDSpc[2:]...), 5, 6, 7, 8, 9, 10, 11)...)},
	// a very long content type (34 content octets): the signed attributes then exceed 127 bytes and
	// their SET / [0] headers take the long length form
	{encasn1.ObjectIdentifier{1, 3, 6, 1, 4, 1, 311, 2, 1, 4, 5, 6, 7, 8, 9, 10, 11, 12, 13, 14, 15, 16, 17, 18, 19, 20, 21, 22, 23, 24, 25, 26, 27, 28},
		append([]byte{0x06, 0x22}, append(append([]byte{}, vOIDSpc[2:]...), 5, 6, 7, 8, 9, 10, 11, 12, 13, 14, 15, 16, 17, 18, 19, 20, 21, 22, 23, 24, 25, 26, 27, 28)...)},
}

// vSetOf is the content of a DER SET OF: the element encodings in ascending order, compared as
// octet strings (X.690 §11.6).
func vSetOf(elems ...[]byte) []byte {
	for i := 1; i < len(elems); i++ {
		for j := i; j > 0 && bytes.Compare(elems[j], elems[j-1]) < 0; j-- {
			elems[j], elems[j-1] = elems[j-1], elems[j]
		}
	}
	return vCat(elems...)
}

// vRefSignedAttrs is the DER SET of the signed attributes (RFC 2315 §9.2): content type, signing
// time, message digest, as a DER SET OF.
func vRefSignedAttrs(oidDER []byte, now time.Time, content []byte) []byte {
	md := sha256.Sum256(content)
	return vDER(0x31, vSetOf(
		vDER(0x30, vCat(vOIDContentTy, vDER(0x31, oidDER))),
		vDER(0x30, vCat(vOIDSignTime, vDER(0x31, vDER(0x17, []byte(now.Format("060102150405Z0700")))))),
		vDER(0x30, vCat(vOIDMsgDigest, vDER(0x31, vDER(0x04, md[:])))),
	))
}

// vRefInteger is the DER INTEGER of a non-negative magnitude without leading zeros.
func vRefInteger(mag []byte) []byte {
	if mag[0]&0x80 != 0 {
		return vDER(0x02, append([]byte{0}, mag...))
	}
	return vDER(0x02, mag)
}

// vRefSignedData is RFC 2315 SignedData with one SignerInfo, as independent implementations
// expect it for (content type, content, certificate, RSA/SHA-256 signature over the attribute SET).
func vRefSignedData(oid vOIDChoice, content, certRaw, issuer, serial, attrsSET, sig []byte) []byte {
	algSHA := vDER(0x30, vCat(vOIDSHA256, vNULL))
	ci := oid.der
	if len(content) > 0 && !oid.oid.Equal(OIDData) {
		ci = vCat(ci, vDER(0xa0, vDER(0x30, content)))
	}
	attrsInner := attrsSET[len(attrsSET)-vInnerLen(attrsSET):]
	si := vDER(0x30, vCat(
		[]byte{0x02, 0x01, 0x01},
		vDER(0x30, vCat(issuer, vRefInteger(serial))),
		algSHA,
		vDER(0xa0, attrsInner),
		vDER(0x30, vCat(vOIDRSA, vNULL)),
		vDER(0x04, sig),
	))
	sd := vDER(0x30, vCat(
		[]byte{0x02, 0x01, 0x01},
		vDER(0x31, algSHA),
		vDER(0x30, ci),
		vDER(0xa0, certRaw),
		vDER(0x31, si),
	))
	return vDER(0x30, vCat(vOIDSignedData, vDER(0xa0, sd)))
}

// vInnerLen: content length of a DER element with a short or 0x81 length (attribute sets are < 256 bytes).
func vInnerLen(el []byte) int {
	if el[1] < 0x80 {
		return int(el[1])
	}
	return int(el[2])
}

func vSerial() []byte {
	lens := []int{1, 20, 2, 8}
	n := lens[vsym.Pick("serial.len", vsymC05Serial)]
	s := vsym.BytesN("serial", n)
	vsym.Assume(s[0] != 0) // magnitude without leading zero (high bit may be set)
	return s
}

// VC05_DERvsReference: the produced blob equals the reference encoding byte for byte.
func VC05_DERvsReference() {
	oid := vOIDs[vsym.Pick("oid", len(vOIDs))]
	// lengths are case-split (every content length 0..bound; certificate sizes from a list) so that
	// all offsets are concrete on each path; contents stay symbolic
	content := vsym.Bytes("content", vsymC05Content)
	content = content[:vsym.Concrete(len(content), 1<<17)]
	signer := vsym.Signer("k1")
	rawLens := []int{5, 140, 300}
	vsym.CertRawLen(rawLens[vsym.Pick("raw.len", vsymC05RawLens)])
	serial := vSerial()
	cert := vsym.Cert(signer, serial)
	raw, issuer := cert.Raw, cert.RawIssuer
	before := time.Now().UTC()
	out, err := SignPKCS7(signer, cert, oid.oid, content)
	vsym.Assert(err == nil, "signing succeeds")
	// the library's own parser and verifier accept what it produced
	p, perr := ParsePKCS7(out)
	vsym.Assert(perr == nil, "the library parses its own SignedData")
	vsym.Assert(p.OID.Equal(oid.oid), "content type recovered")
	okv, verr := p.Verify(cert)
	vsym.Assert(okv && verr == nil, "the library verifies its own SignedData")
	// the signing time is read before the (possibly slow) signer is called
	attrs := vRefSignedAttrs(oid.der, before, content)
	d := sha256.Sum256(attrs)
	sig, _ := signer.Sign(rand.Reader, d[:], crypto.SHA256)
	want := vRefSignedData(oid, content, raw, issuer, serial, attrs, sig)
	if !vsym.Symbolic() && !bytes.Equal(out, want) {
		// native replay only: the library may have read the clock one second after the harness did
		attrs = vRefSignedAttrs(oid.der, before.Add(time.Second), content)
		d = sha256.Sum256(attrs)
		sig, _ = signer.Sign(rand.Reader, d[:], crypto.SHA256)
		want = vRefSignedData(oid, content, raw, issuer, serial, attrs, sig)
	}
	vsym.AssertBytesEq(out, want, "SignedData equals the reference DER encoding")
	vsym.Reach("end")
}
