package pkcs7

import (
	"crypto"
	"crypto/rand"
	"crypto/sha256"
	"time"

	"golang.org/x/crypto/cryptobyte"

	"github.com/foxboron/go-uefi/internal/vsym"
)

var vsymC16Content = 4 // length of the signed content

// vEmbedded, when set, is the content vThirdPartyBlob places in the blob instead of the signed one.
var vEmbedded []byte

var vOIDSigningCertV2 = []byte{0x06, 0x0b, 0x2a, 0x86, 0x48, 0x86, 0xf7, 0x0d, 0x01, 0x09, 0x10, 0x02, 0x2f}

var vOIDSMIMECap = []byte{0x06, 0x09, 0x2a, 0x86, 0x48, 0x86, 0xf7, 0x0d, 0x01, 0x09, 0x0f}

// vThirdPartyBlob builds, with the reference encoder (not the library's), the SignedData a standard
// producer (openssl smime/cms -sign -md sha256, sbsign) emits: attributes contentType, signingTime, messageDigest
// [, sMIMECapabilities] in DER SET OF order (by encoding; a short capability list sorts first); options: outer ContentInfo or bare SignedData,
// NULL parameters present or absent, content attached or detached.
func vThirdPartyBlob(signer crypto.Signer, certRaw, issuer, serial, content []byte, now time.Time,
	smimecap, extra []byte, outer, nullParams, attached bool) (blob, attrsInner []byte) {
	md := sha256.Sum256(content)
	attrs := [][]byte{
		vDER(0x30, vCat(vOIDContentTy, vDER(0x31, vOIDData))),
		vDER(0x30, vCat(vOIDSignTime, vDER(0x31, vDER(0x17, []byte(now.Format("060102150405Z0700")))))),
		vDER(0x30, vCat(vOIDMsgDigest, vDER(0x31, vDER(0x04, md[:])))),
	}
	if smimecap != nil {
		attrs = append(attrs, vDER(0x30, vCat(vOIDSMIMECap, vDER(0x31, vDER(0x30, smimecap)))))
	}
	if extra != nil {
		// a further attribute the library does not know (as CAdES signingCertificateV2 would be)
		attrs = append(attrs, vDER(0x30, vCat(vOIDSigningCertV2, vDER(0x31, vDER(0x30, extra)))))
	}
	attrsInner = vSetOf(attrs...) // DER producers emit the SET OF sorted (X.690 §11.6)
	d := sha256.Sum256(vDER(0x31, attrsInner))
	sig, _ := signer.Sign(rand.Reader, d[:], crypto.SHA256)
	null := vNULL
	if !nullParams {
		null = nil
	}
	algSHA := vDER(0x30, vCat(vOIDSHA256, null))
	ci := vOIDData
	if attached {
		emb := content
		if vEmbedded != nil {
			emb = vEmbedded // the blob carries other content than the one that was digested and signed
		}
		ci = vCat(ci, vDER(0xa0, vDER(0x04, emb)))
	}
	si := vDER(0x30, vCat([]byte{0x02, 0x01, 0x01}, vDER(0x30, vCat(issuer, vRefInteger(serial))), algSHA,
		vDER(0xa0, attrsInner), vDER(0x30, vCat(vOIDRSA, vNULL)), vDER(0x04, sig)))
	sd := vDER(0x30, vCat([]byte{0x02, 0x01, 0x01}, vDER(0x31, algSHA), vDER(0x30, ci), vDER(0xa0, certRaw), vDER(0x31, si)))
	if outer {
		return vDER(0x30, vCat(vOIDSignedData, vDER(0xa0, sd))), attrsInner
	}
	return sd, attrsInner
}

// VC16_ThirdParty: blobs in the producer language parse, verify against the signer's certificate,
// fail against another certificate, and the signed-attribute encoding reconstructed from the
// parsed values is exactly what was signed.
func VC16_ThirdParty() {
	signer, other := vsym.Signer("k1"), vsym.Signer("k2")
	serial := vsym.BytesN("serial", 2)
	vsym.Assume(serial[0] != 0)
	cert := vsym.Cert(signer, serial)
	s2 := vsym.BytesN("serial2", 2)
	vsym.Assume(s2[0] != 0)
	otherCert := vsym.Cert(other, s2)
	content := vsym.BytesN("content", vsymC16Content)
	var smimecap []byte
	// opaque capability list of several sizes: the signed attributes then take 105 bytes (absent),
	// 127/128 bytes (the one-byte / 0x81 DER length boundary), 168 bytes (what OpenSSL's default list
	// gives) and more than 255 bytes (0x82 length form, as with additional attributes)
	capLen := []int{0, 7, 8, 48, 150}[vsym.Pick("smimecap", 5)]
	if capLen != 0 {
		smimecap = vsym.BytesN("smimecap.body", capLen)
	}
	var extra []byte
	if vsym.Bool("extra.attr") {
		extra = vsym.BytesN("extra.body", 20)
	}
	outer, nullParams, attached := vsym.Bool("outer"), vsym.Bool("null"), vsym.Bool("attached")
	blob, attrsInner := vThirdPartyBlob(signer, cert.Raw, cert.RawIssuer, serial, content, time.Now().UTC(), smimecap, extra, outer, nullParams, attached)

	p, err := ParsePKCS7(blob)
	vsym.Assert(err == nil, "a third-party SignedData parses")
	vsym.Assert(len(p.SignerInfo) == 1, "one signer entry")
	a := p.SignerInfo[0].AuthenticatedAttributes
	vsym.Assert(a != nil, "signed attributes are present")
	want := vDER(0x31, attrsInner)
	got, serr := a.signedBytes()
	vsym.Assert(serr == nil, "the signed bytes can be reconstructed")
	vsym.AssertBytesEq(got, want, "the reconstructed signed-attribute encoding is exactly what was signed")
	vsym.AssertBytesEq(a.Marshal(), want, "re-encoding the parsed values also reproduces it (attributes in DER order)")
	ok, verr := p.Verify(cert)
	vsym.Assert(ok && verr == nil, "a third-party signature verifies against the signer's certificate")
	ok2, _ := p.Verify(otherCert)
	vsym.Assert(!ok2, "and fails against another certificate")
	// the content info round trip used for authenticated variables
	cs := cryptobyte.String(blob)
	if outer {
		_, inner, cerr := ParseContentInfo(&cs)
		vsym.Assert(cerr == nil && len(inner) > 0, "the outer ContentInfo can be removed")
	}
	vsym.Reach("end")
}

// VC16_Fixtures: the sbsign / sbvarsign artefacts shipped with the repository parse (concrete run).
func VC16_Fixtures() {
	for _, f := range []string{"pkcs7/testdata/test.signed", "authenticode/testdata/test.pecoff.pk7", "pkcs7/testdata/old_pkcs7_implementation.der", "authenticode/testdata/old_authenticode_implementation.der"} {
		b := vsym.Fixture(f)
		p, err := ParsePKCS7(b)
		vsym.Assert(err == nil, "shipped third-party artefact parses")
		vsym.Assert(len(p.SignerInfo) >= 1, "with a signer entry")
		if a := p.SignerInfo[0].AuthenticatedAttributes; a != nil {
			got, _ := a.signedBytes()
			vsym.Assert(len(got) > 0, "signed bytes reconstructed")
		}
	}
	vsym.Reach("end")
}
