package pkcs7

import (
	"github.com/foxboron/go-uefi/internal/vsym"
)

// VC15_SignerFault: when the signer fails, SignPKCS7 returns an error and no blob; the process
// keeps running (a log.Fatal / os.Exit on the path is reported by the executor).
func VC15_SignerFault() {
	vsym.EnableFaults()
	oid := vOIDs[vsym.Pick("oid", len(vOIDs))]
	content := vsym.Bytes("content", 8)
	content = content[:vsym.Concrete(len(content), 64)]
	signer := vsym.Signer("k1")
	serial := vsym.BytesN("serial", 2)
	vsym.Assume(serial[0] != 0)
	cert := vsym.Cert(signer, serial)
	out, err := SignPKCS7(signer, cert, oid.oid, content)
	if vsym.Bool("probe") { // natively: did the signer fail? (model: fault bit)
	}
	if err == nil {
		vsym.Assert(len(out) > 0, "success comes with a blob")
		vsym.Reach("signed")
	} else {
		vsym.Assert(out == nil, "no blob is returned alongside an error")
		vsym.Reach("failed")
	}
	vsym.Reach("end")
}
