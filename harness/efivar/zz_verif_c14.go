package efivar

import (
	"bytes"

	"github.com/foxboron/go-uefi/internal/vsym"
)

var vsymC14Max = 16

func VC14_Efistring() {
	in := vsym.Bytes("in", vsymC14Max)
	in = in[:vsym.Concrete(len(in), 1<<12)] // case-split the length: positions are concrete on each path
	vsym.AllocBound(8*len(in) + 8192)
	vsym.MustTerminate()
	var s Efistring
	s.Unmarshal(bytes.NewBuffer(in))
	vsym.Reach("end")
}
