package efivar

import (
	"bytes"

	"github.com/foxboron/go-uefi/internal/vsym"
)

var vsymC17Runes = 2

func vRune17(name string) rune {
	r := rune(vsym.U32(name))
	vsym.Assume(vsym.And(r > 0, r <= 0x10FFFF, vsym.Or(r < 0xD800, r > 0xDFFF)))
	return r
}

func vUTF16LE17(r rune) []byte {
	if r < 0x10000 {
		return []byte{byte(r), byte(r >> 8)}
	}
	v := r - 0x10000
	hi, lo := 0xD800+(v>>10), 0xDC00+(v&0x3FF)
	return []byte{byte(hi), byte(hi >> 8), byte(lo), byte(lo >> 8)}
}

// VC17_Efistring: Efistring.Unmarshal on the UTF-16LE encoding (written from the definition) of any
// NUL-free string of 0..n scalar values, followed by further variable content, returns the string
// and consumes exactly the string with its terminator; without the terminator it is an error.
func VC17_Efistring() {
	n := vsym.Pick("runes", vsymC17Runes+1)
	names := []string{"r0", "r1", "r2", "r3"}
	s := ""
	var enc []byte
	for i := 0; i < n; i++ {
		r := vRune17(names[i])
		s += string(r)
		enc = append(enc, vUTF16LE17(r)...)
	}
	noterm := append([]byte{}, enc...)
	enc = append(enc, 0, 0)
	tail := vsym.BytesN("tail", 3)
	buf := bytes.NewBuffer(append(append([]byte{}, enc...), tail...))
	var es Efistring
	err := es.Unmarshal(buf)
	vsym.Assert(err == nil, "decoding a terminated UTF-16 string succeeds")
	vsym.AssertBytesEq([]byte(es), []byte(s), "decoding returns the original string")
	vsym.AssertBytesEq(buf.Bytes(), tail, "exactly the string and its terminator are consumed")
	var e2 Efistring
	vsym.Assert(e2.Unmarshal(bytes.NewBuffer(noterm)) != nil, "decoding input without the terminator is an error")
	vsym.Reach("end")
}
