#!/bin/bash
# usage: eval_seed.sh <propID> <outdir> <worktree> [tier]
# 1) confirms the seeded change: builds, passes the existing suite, demo fails with / passes without it
# 2) applies it to /repo, runs the property's check, restores /repo
id=$1; out=$2; wt=$3; tier=${4:-quick}
export GOFLAGS=-mod=mod GOPROXY=off GOSUMDB=off GOTOOLCHAIN=local
cd $wt || exit 2
demo=$(ls $out/*_test.go | head -1); pkgdir=$(dirname $(git -C $wt ls-files --others --exclude-standard | grep zz_seeded_demo_test.go | head -1))
echo "== confirm in worktree ($pkgdir)"
git checkout -q -- . && git apply $out/patch.diff || { echo "PATCH DOES NOT APPLY IN WORKTREE"; exit 1; }
go build ./... || { echo "BUILD FAILS"; exit 1; }
go test -vet=off -count=1 ./authenticode/... ./efi/... ./efivarfs/... ./pkcs7/... 2>&1 | grep -v "no test files" | grep -v "^ok" | grep -v zz_seeded | head -5
go test -vet=off -count=1 -run 'TestSeeded' ./$pkgdir 2>&1 | tail -3 | sed 's/^/  with change: /'
git apply -R $out/patch.diff
go test -vet=off -count=1 -run 'TestSeeded' ./$pkgdir 2>&1 | tail -1 | sed 's/^/  without change: /'
git apply $out/patch.diff
echo "== run check $id ($tier) on /repo with the change"
cd /repo && git apply $out/patch.diff || { echo "PATCH DOES NOT APPLY"; exit 1; }
cd /verif && bin/vcheck $id --tier $tier 2>&1 | grep -E "VIOLATION|  harness=|OK property|VACUOUS|MISMATCH|ENGINE|KNOWN" | head -8
cd /repo && git checkout -- . && git status --short | head -3
cd /verif && git checkout -- evidence/ 2>/dev/null
