#!/usr/bin/env python3
"""Regenerates MANIFEST.json from the table below (claimed properties) and properties.jsonl."""
import json
ids=[json.loads(l)['id'] for l in open('/verif/properties.jsonl')]
TECH="bounded symbolic execution of go/ssa + SMT (z3 5.1 incremental; cvc5/z3 portfolio), native replay of counterexamples"
NOTE="Trusted: go/ssa as IR of the current tree, the executor's instruction semantics and listed intrinsics, the SMT solvers, the reference models written in the harness files. Bounds are listed in the evidence; solver unknown/time-out is never success."
claims={
 "C01":("For symbolic well-formed PE32/PE32+ images (every byte, the length, SizeOfHeaders, all section offsets/sizes in any order, certificate directory and trailing data symbolic) the library digest equals SHA-256 of the byte string that steps 3-14 of the Authenticode specification define; plus the io.ReaderAt contract of the positional multi-reader for all offsets/lengths.","2 C01"),
 "C03":("For symbolic well-formed images and symbolic signature bytes/length, AppendSignature+Bytes yields exactly the specified signed file (original bytes, padding, table, WIN_CERTIFICATE header, directory entry spanning to end of file), also after several in-memory appends; on the fixture image: sign / re-parse / re-sign histories verify for exactly the signers and keep the digest.","2 C03"),
 "C07":("All well-formed signature-database streams up to the byte bound (every byte and the length symbolic, restricted only by a reference recogniser of the UEFI layout) are accepted, decode to exactly the specified lists/owners/data, and re-encode to the same bytes (Bytes and Marshal/Unmarshal routes).","2 C07"),
 "C08":("For every byte string up to the bound (every byte and the length symbolic): if decoding succeeds, the lists tile the whole input, satisfy the EFI_SIGNATURE_LIST size equations and hold exactly the input bytes at the specified offsets; decided by SMT on every path.","2 C08"),
 "C09":("One inductive step from an arbitrary valid database state (symbolic owners/data, enumerated shapes): append and remove change the ordered entry collection exactly as specified (PEM stored as DER, errors change nothing, emptied list dropped), membership queries agree with the collection, and the representation invariant and encoded length hold afterwards.","2 C09"),
 "C10":("Descriptor and WIN_CERTIFICATE decoding consumes exactly the declared length, recovers every field, leaves the payload, and both round trips are identities, for every byte string up to the bound (all fields symbolic).","2 C10"),
 "C14":("One harness per variable/key-file decoder entry point on a fully symbolic byte string: on every path no panic, no log.Fatal/os.Exit, no allocation above 8*len+8192, termination within the unwinding bounds; violations are replayed natively (panic / exit status / measured allocation).","2 C14"),
 "C17":("GUID conversions decided for all 2^128 values in one symbolic run (Format, both parse directions, byte forms, in-structure layout, equality); UTF-16 encode/decode round trip, wire layout and terminator check for all strings of up to 3 (4 thorough) symbolic code points.","2 C17"),
 "C18":("Boot-order decoding decided for all 65 536 values of every entry symbolically: names are Boot + four upper-case hex digits; a load option built by a reference encoder from symbolic fields (one node of every supported kind) decodes to its fields and the hard-drive / file-path text forms are the UEFI ones.","2 C18"),
 "C19":("Read-only operations on a parsed symbolic image, a database and a signed-update value are called twice in both orders: results are equal on every path, and the executor's write log shows no store into the pre-existing object graph (sufficient condition for race-free concurrent use).","2 C19"),
 "C11":("Variable write/read through the object API and the legacy package-level API against a recording file system: the complete operation trace (path with canonical lower-case GUID for all 2^128 GUIDs, flags, single write of attrs||value) and the attribute-checked read are decided for symbolic names, masks and values.","2 C11"),
 "C12":("Inductive step on the real in-memory store (afero.MemMapFs interpreted): after an arbitrary previous value, a plain write of any shorter/equal/longer value is what the next read returns; other variables unchanged.","2 C12"),
 "C15":("Symbolic fault injection in the file-system dependency: every failing or short step of variable write and read surfaces as an error; all fault positions explored by forking.","2 C15"),
 "C05":("SignPKCS7 output equals, byte for byte, a reference RFC 2315/X.690 encoding written in the harness, for every content length in the bound, three content types, symbolic content/certificate/issuer/serial bytes and a symbolic clock (signature and hash as uninterpreted functions).","2 C05"),
 "C06":("SignEFIVariable output equals the specified AUTHENTICATION_2 layout byte for byte (UTC timestamp for every process time zone, header fields, bare detached SignedData over the specified buffer, payload) for symbolic names, GUIDs, attribute masks and payloads.","2 C06"),
 "C02":("On the signed fixture image under the signature/hash model: verification succeeds for the signer and fails for another key (same issuer and serial) and for every single-byte change of section data (symbolic position), of the embedded digest, of the signer identity, signed attributes and signature.","2 C02"),
 "C04":("Unit-level soundness of PKCS#7 verification over an arbitrary parsed state with up to two signer entries and a reusable honest signature: success implies matching identity, valid signature over the attribute SET and messageDigest = SHA-256(content); and blobs whose attribute order differs from the signed order are rejected (verification over the bytes as they appear).","2 C04"),
 "C13":("Crash/exit/allocation/termination obligations decided on every path for: the test image with each offset-steering header field symbolic (Parse, Hash, Bytes, Signatures), a fully symbolic certificate table, fully symbolic small DER through ParsePKCS7/Verify, a real blob with one symbolic byte, and a signer entry without attributes.","2 C13"),
 "C16":("Third-party style SignedData built by an independent reference encoder in all 32 producer configurations parses, verifies against the signer and not against another certificate, and the signed-attribute bytes reconstructed from the parsed values equal the signed bytes; the shipped sbsign/sbvarsign artefacts parse.","2 C16"),
}
partial={
 "C16":" The producer language is an assumption about OpenSSL/sbsign, stated in the evidence.",
 "C13":" Fully symbolic images are outside; one header field varies at a time.",
 "C02":" Header-byte coverage rests on C01 (digest = specification stream) plus the digest comparison shown here; cross-image transplant is the section-byte case seen from the other image.",
 "C05":" The library's own parse/verify of the result is covered by C04's harnesses only in unit form; third-party verifiers are outside.",
 "C15":" Reader failures after parsing (Hash/Verify) cannot occur: the parsed object reads from memory.",
 "C19":" Real goroutine schedules are not explored; Verify is not included.",
 "C03":" Re-parse digest, embedded digest and verify-after-sign are decided on the shipped test image (signature model), layout on symbolic images.",
 "C01":" Per-position coverage is decided on the fixture image; for symbolic images it follows from the stream equality.",
 "C14":" PEM key/certificate readers are not covered (encoding/pem, crypto/x509 not interpreted); the static enumeration of exit call sites is not yet part of this check.",
}
checks=[]
for i in ids:
    if i in claims:
        text,ref=claims[i]
        checks.append({"property_id":i,"quick_cmd":"bin/vcheck %s --tier quick"%i,"thorough_cmd":"bin/vcheck %s --tier thorough"%i,
          "evidence_file":"/verif/evidence/%s.json"%i,"replay_cmd_template":"sh -c 'cat {path}/cmd.txt; sh {path}/cmd.txt'","engine":"symgo",
          "level_claimed":{"category":"model_checking","text":text+partial.get(i,"")+" Bounded: holds for all values within the stated bounds, nothing is claimed outside them.","design_ref":"DESIGN.md section "+ref},
          "level_note":NOTE,"technique":TECH})
na=[{"property_id":i,"reason":"check not built yet in this session (engine capability pending); to be decided by symbolic execution, not by another technique"} for i in ids if i not in claims]
m={"version":1,"setup_cmd":"cd /verif && ./setup.sh",
 "hooks":{"guard":"verif","enable":"no hooks in /repo: harness files and the vsym package are injected with go/packages Overlay (analysis) and go test -overlay (native replay)","baseline_off_cmd":"cd /repo && go test -vet=off -count=1 ./authenticode/... ./efi/... ./efivarfs/... ./pkcs7/...","source_commits":[],"add_only":True},
 "engines":[{"name":"symgo","path":"/verif/engine","serves_properties":sorted(claims),"kind_free_text":"bounded symbolic executor for Go SSA (x/tools v0.29.0) with SMT back ends: z3 5.1.0 incremental, one-shot portfolio cvc5 --solve-bv-as-int=sum / z3 5.1.0 / z3 4.8.12 / cvc5"}],
 "checks":checks,"not_applicable":na,
 "notes":"Every check regenerates its encoding from /repo's working tree (VERIF_REPO overrides). Known findings: /verif/known_findings.json."}
json.dump(m,open('/verif/MANIFEST.json','w'),indent=1)
print(len(checks),"claimed;",len(na),"not applicable")
