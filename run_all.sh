#!/bin/sh
# Runs every claimed check (quick by default) and prints one line per property.
tier=${1:-quick}
cd /verif
for id in $(python3 -c "import json;print(' '.join(c['property_id'] for c in json.load(open('MANIFEST.json'))['checks']))"); do
  s=$(date +%s)
  out=$(bin/vcheck $id --tier $tier 2>&1); rc=$?
  e=$(date +%s)
  echo "$id rc=$rc $((e-s))s $(echo "$out" | grep -c VIOLATION) violations; $(echo "$out" | grep -E 'VACUOUS|ENCODING-MISMATCH|ENGINE-ERROR|CHECK-BROKEN|KNOWN-FINDING' | head -3 | tr '\n' ' ')"
done
