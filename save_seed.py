#!/usr/bin/env python3
"""save_seed.py <seed-id> <property> <outdir> <caught-by|MISSED> <needs...>  : copies a confirmed seeded change into /verif/seeded/<seed-id>/"""
import sys,os,shutil,json,glob
sid,prop,out,caught=sys.argv[1:5]; needs=' '.join(sys.argv[5:])
d='/verif/seeded/'+sid; os.makedirs(d,exist_ok=True)
shutil.copy(out+'/patch.diff',d+'/patch.diff')
for f in glob.glob(out+'/*_test.go'): shutil.copy(f,d+'/'+os.path.basename(f)+'.txt')
if os.path.exists(out+'/notes.md'): shutil.copy(out+'/notes.md',d+'/notes.md')
json.dump({"seed":sid,"breaks_property":prop,"needs_to_manifest":needs,"source":"independent sub-agent given only the property text and a scratch worktree",
 "confirmed":"eval_seed.sh: go build ok; existing suite (authenticode, efi, efivarfs, pkcs7) passes with the change; demo test fails with the change and passes without it (run by me in the scratch worktree)",
 "checked_with":"git -C /repo apply patch.diff; bin/vcheck %s --tier quick; git -C /repo checkout -- ."%prop,
 "detected_by":caught},open(d+'/meta.json','w'),indent=1)
print("saved",d)
